#!/usr/bin/env python3
"""Regenerates MANIFEST.json. Edit CLAIMS / NA below; everything else is derived."""
import json, subprocess
ids = [json.loads(l)['id'] for l in open('/verif/properties.jsonl')]
LEVEL_NOTE_COMMON = ("Trusted: go/packages+go/ssa front end, the govc VC generator, the three SMT solvers; library functions only through the "
 "trusted contracts listed in the evidence file; nil-dereference freedom of pointer arguments is assumed; frames of calls without an explicit "
 "modifies clause are inferred from the static call graph (class-hierarchy analysis; external code writes only what it is handed).")
CLAIMS = {
 "C08": dict(cat="proof", ref="DESIGN.md §6 C08",
   text="Contracts on the real quorum and scaling functions (divCeil, IsStrongQuorum, hasWeakQuorum, CouldReachStrongQuorumFor, ReceivedFrom*Quorum, scalePower, PowerEntries.Scaled, PowerTable.rescale) are discharged for all int64/big-integer inputs and all iteration counts, with no overflow; intersection, weak-quorum, could-reach and order-preservation facts are lemmas proved from those contracts only.",
   note="PowerTable.Add (sorting + re-summing) is not under contract: rescale's precondition (Total is the sum of positive entry powers) is assumed there. big.Int arithmetic is trusted to be exact integer arithmetic. " + LEVEL_NOTE_COMMON,
   tech="contract-based deductive verification (own VC generator over go/ssa, SMT)"),
 "C20": dict(cat="proof", ref="DESIGN.md §6 C20",
   text="predictor.update is proved against a full functional contract (interval stays in [min,max], steady production is a fixed point, several certificates shorten, none backs off, back-off doubles up to 10*max) for all states and all progress values; Subscriber.poll and Poller.CatchUp are proved to return exactly NextInstance' - NextInstance; the timer re-arm in Subscriber.run is proved to wait interval + min(request time, interval/2).",
   note="One-step facts only: no trajectory of the cadence is simulated. Poller.Poll is used through an assumed contract (NextInstance never decreases). The select statement in run is abstracted (everything havoc'd); durations are assumed below 2^62 ns. " + LEVEL_NOTE_COMMON,
   tech="contract-based deductive verification (own VC generator over go/ssa, SMT)"),
 "C19": dict(cat="proof", ref="DESIGN.md §6 C19",
   text="The simulator's decision oracle (ECInstance.validateDecision) is proved to accept only decisions with the right instance, DECIDE step, round 0, signers inside the table with non-zero scaled power, a strong quorum of scaled power (the same predicate as C08) and a verified aggregate over exactly those signers; invalid or unknown-instance decisions are proved to be recorded as errors, Simulation.Run is proved to check the recorded errors and the consensus of a completed instance before going on; certchain.GetCommittee is proved to use the certificate of instance - lookback, the node's rule.",
   note="ECInstance.HasReachedConsensus / HasCompleted are not under contract (their results are used as given). BitField.ForEach is used through a trusted iterator contract (set bits visited in increasing order). " + LEVEL_NOTE_COMMON,
   tech="contract-based deductive verification (own VC generator over go/ssa, SMT)"),
 "C16": dict(cat="proof", ref="DESIGN.md §6 C16",
   text="Server.handleRequest is proved to advertise latest+1, to serve the power table of the first requested instance only on request, and to read from the store exactly the inclusive range [first, end] with end-first+1 <= min(limit,256) and end < pending (all request values, including limit 0 and sums that wrap); the client's receive goroutine is proved to hand over a certificate only when it is the next one in sequence and within the limit; Poller.Poll is proved to validate every received certificate against its own current table / instance / network and to call Store.Put only after that validation succeeded, to classify a validation failure as PollIllegal, and never to decrease NextInstance.",
   note="Byte-for-byte equality of the served certificates with the stored ones rests on Store.GetRange (C09) and the codec (C14, not decided). Store.Put and ValidateFinalityCertificates enter Poll through assumed post-conditions (latest >= stored certificate; next = next + number of certificates), listed in the evidence. select statements and channel receives are abstracted (state havoc'd, received value unconstrained). " + LEVEL_NOTE_COMMON,
   tech="contract-based deductive verification (own VC generator over go/ssa, SMT)"),
 "C04": dict(cat="proof", ref="DESIGN.md §6 C04",
   text="ValidateFinalityCertificates is proved, for any number of certificates, to accept only consecutive instances, well-formed non-bottom chains linked to the previous head (or the caller's base), to check each signature against the table in force, to apply the delta to that table only after the signature check, to compare the CID of exactly the resulting table with the committed one, to advance (instance, base, table) exactly by the validated certificate, and on every error return to report the valid-prefix triple; verifyFinalityCertificateSignature is proved to require signers inside the table with non-zero scaled power and 3*sum(scaled power of signers) >= 2*total, and to verify the aggregate over exactly {instance, round 0, DECIDE, supplemental data, chain} and exactly those signers; ApplyPowerTableDiffsToMap is proved to accept only strictly id-sorted deltas without empty entries and to modify only the given map; ApplyPowerTableDiffs is proved to modify nothing that existed before the call on any path.",
   note="NOT covered: MakePowerTableDiff and the round-trip / uniqueness lemmas over the abstract table view (the accepted-delta shape is proved, the full functional apply specification is not); 'certificates produced by consensus are accepted' (C03 lemma). Aggregate verification, CIDs and payload marshalling are uninterpreted; ECChain.Validate/IsZero/Equal results are used as returned. Instance numbers are assumed not to wrap around 2^64. " + LEVEL_NOTE_COMMON,
   tech="contract-based deductive verification (own VC generator over go/ssa, SMT)"),
 "C11": dict(cat="proof", ref="DESIGN.md §6 C11",
   text="Record-granularity contracts on the real WAL methods (at their only instantiation): Append acknowledges only after write+fsync into the active file and leaves the active file's max-epoch statistic >= the entry's epoch (also across a size-triggered rotation); readLogFile returns, for every way the file can end (clean EOF, undecodable tail), the records decoded so far in order together with a statistic covering every one of them; flush moves the active statistic unchanged into the closed-file list; rotate opens only with O_CREATE|O_WRONLY|O_EXCL on a fresh name; hydrate lists every log file with the statistic read from it; Purge removes a closed file only if its statistic is below the epoch, keeps all others in order, leaves every kept statistic >= the epoch and never touches the active file.",
   note="The file system and the CBOR record decoder are not modelled: 'an acknowledged entry is returned intact by a later read' and the every-byte-offset tearing clause rest on os.File.Write/Sync semantics and on a torn record not decoding (assumed, as DESIGN.md states). All()'s concatenation order is not under contract. The contracts pin down the bookkeeping (statistics, ordering of write/fsync/acknowledge, purge conditions) that the property depends on. " + LEVEL_NOTE_COMMON,
   tech="contract-based deductive verification (own VC generator over go/ssa, SMT)"),
 "C12": dict(cat="proof", ref="DESIGN.md §6 C12",
   text="equivocationFilter.ProcessBroadcast is proved against a full contract with frame (instance only moves forward; true only for the current instance; a published message's slot holds a signature equal to the message's; within an instance no slot is ever removed or overwritten; a new instance starts empty); BroadcastMessage and rebroadcastMessage are proved to publish only what the filter admitted, only the encoding of that message, and (BroadcastMessage) only after the WAL append on every path; newRunner is proved to push every WAL entry through the filter before the participant is created; ProcessReceive is proved to have no caller; the WAL contracts of C11 are obligations of C12 too.",
   note="The composition 'no two differently signed messages for one slot ever reach the wire across restarts' is the ghost-history argument of DESIGN.md §6 C12 over these contracts and is not itself machine-checked. WAL append errors are outside the property (the code publishes anyway). bytes.Equal is trusted to be an equivalence; slices.Sort/Contains by trusted contracts. " + LEVEL_NOTE_COMMON,
   tech="contract-based deductive verification (own VC generator over go/ssa, SMT)"),
}
NA = {
 "C06": "liveness under partial synchrony with real-time bounds over multi-node schedules: no function contract can state it (DESIGN.md §7)",
}
hooks = subprocess.run(["git","-C","/repo","log","--format=%H %s"],capture_output=True,text=True).stdout.splitlines()
hook_commits = [l.split()[0] for l in hooks if l.split(' ',1)[1].startswith('verif:')]
m = {"version":1,
 "setup_cmd":"cd /verif/govc && cp /repo/go.sum . && GOFLAGS=-mod=mod GOPROXY=off go build -o /verif/bin/govc .",
 "hooks":{"guard":"verif","enable":"-tags verif (comment-only contract files zz_verif_contracts.go; they add no executable code)",
   "baseline_off_cmd":"cd /repo && go test -mod=mod -vet=off -count=1 -timeout 25m ./...","source_commits":hook_commits,"add_only":True},
 "engines":[{"name":"govc","path":"/verif/govc","serves_properties":sorted(CLAIMS),"kind_free_text":"contract-based deductive verifier for Go written for this task: go/ssa of /repo's working tree -> verification conditions -> z3 4.8.12 / z3 5.1.0 / cvc5 1.0 portfolio; contracts are //@ comments in zz_verif_contracts.go files (tag verif)"}],
 "checks":[], "not_applicable":[],
 "notes":"Fix commits in /repo (unguarded, one per defect) are listed in /verif/known_findings.jsonl. /verif/selftest/run.py replays the must-fail corpus."}
for i in ids:
    if i in CLAIMS:
        c=CLAIMS[i]
        m["checks"].append({"property_id":i,"quick_cmd":f"/verif/bin/govc check --property {i} --tier quick",
          "thorough_cmd":f"/verif/bin/govc check --property {i} --tier thorough","evidence_file":f"/verif/evidence/{i}.json",
          "replay_cmd_template":"/verif/bin/govc replay {path}","engine":"govc",
          "level_claimed":{"category":c["cat"],"text":c["text"],"design_ref":c["ref"]},"level_note":c["note"],"technique":c["tech"]})
    else:
        m["not_applicable"].append({"property_id":i,"reason":NA.get(i,"not claimed yet: the contracts for this property are not all discharged (engine under construction)")})
json.dump(m,open('/verif/MANIFEST.json','w'),indent=1)
print("claimed:",sorted(CLAIMS))
