package main

import (
	"bufio"
	"golang.org/x/tools/go/ssa"
	"encoding/json"
	"flag"
	"go/token"
	"go/types"
	"fmt"
	"os"
	"path/filepath"
	"sort"
	"strconv"
	"strings"
	"time"
)

func verifDir() string {
	if d := os.Getenv("VERIF_DIR"); d != "" {
		return d
	}
	return "/verif"
}

// outDir is where evidence and replay files are written (the self-test redirects it).
func outDir() string {
	if d := os.Getenv("VERIF_OUT"); d != "" {
		return d
	}
	return verifDir()
}

type knownFinding struct {
	Property   string `json:"property"`
	Status     string `json:"status"` // open | fixed
	Obligation string `json:"obligation"`
	What       string `json:"what"`
	Commit     string `json:"commit,omitempty"`
}

func loadKnownFindings() []knownFinding {
	f, err := os.Open(filepath.Join(verifDir(), "known_findings.jsonl"))
	if err != nil {
		return nil
	}
	defer f.Close()
	var res []knownFinding
	sc := bufio.NewScanner(f)
	sc.Buffer(make([]byte, 1<<20), 1<<20)
	for sc.Scan() {
		line := strings.TrimSpace(sc.Text())
		if line == "" || strings.HasPrefix(line, "#") {
			continue
		}
		var k knownFinding
		if json.Unmarshal([]byte(line), &k) == nil {
			res = append(res, k)
		}
	}
	return res
}

type propertyRun struct {
	ID        string
	Tier      string
	Seed      int
	Units     []*Unit
	Trusted   []string
	Bounded   []boundedResult
	Corpus    map[string]any
	WallS     float64
	LoadS     float64
	Problems  []string
}

type boundedResult struct {
	Name   string
	Desc   string
	OK     bool
	Cases  int
	Output string
}

// unitsFor builds the verification units of a property: every non-trusted function contract and every
// lemma tagged with it.
func unitsFor(P *Program, C *Contracts, prop string) (units []*Unit, trusted []string) {
	// the functions tagged with the property, plus every function under contract that they reach through static
	// calls (directly or through uncontracted module functions): a helper the property leans on is part of its check
	// whether or not its contract happens to carry the property's tag
	inSet := map[*FuncContract]bool{}
	var order []*FuncContract
	for _, fc := range C.Order {
		if hasProp(fc.Props, prop) && !fc.Trusted {
			inSet[fc] = true
			order = append(order, fc)
		}
	}
	if os.Getenv("VERIF_NO_CLOSURE") == "" {
		contractOf := func(fn *ssa.Function) *FuncContract {
			key := funcKey(fn)
			if c := C.Funcs[key]; c != nil {
				return c
			}
			if strings.Contains(key, "[") {
				return C.Funcs[stripBrackets(key)]
			}
			return nil
		}
		seen := map[*ssa.Function]bool{}
		var queue []*ssa.Function
		for _, fc := range order {
			if fn := P.Funcs[fc.Key]; fn != nil {
				queue = append(queue, fn)
				seen[fn] = true
			}
		}
		for len(queue) > 0 {
			fn := queue[0]
			queue = queue[1:]
			var callees []*ssa.Function
			for _, b := range fn.Blocks {
				for _, ins := range b.Instrs {
					if ci, ok := ins.(ssa.CallInstruction); ok {
						if c := ci.Common().StaticCallee(); c != nil {
							callees = append(callees, c)
						}
					}
					if mc, ok := ins.(*ssa.MakeClosure); ok {
						if c, ok := mc.Fn.(*ssa.Function); ok {
							callees = append(callees, c)
						}
					}
				}
			}
			for _, c := range callees {
				if seen[c] || !inModule(c) || c.Blocks == nil {
					continue
				}
				seen[c] = true
				queue = append(queue, c)
				if fc := contractOf(c); fc != nil && !fc.Trusted && !inSet[fc] && len(fc.Props) > 0 {
					inSet[fc] = true
					order = append(order, fc)
				}
			}
		}
	}
	for _, fc := range order {
		units = append(units, verifyFunc(P, C, fc))
	}
	for _, l := range C.Lemmas {
		if hasProp(l.Props, prop) {
			units = append(units, verifyLemma(P, C, l))
		}
	}
	for _, st := range C.Structurals {
		if hasProp(st.Props, prop) {
			units = append(units, verifyStructural(P, C, st))
		}
	}
	return
}

// verifyStructural decides a syntactic obligation over the whole loaded program.
func verifyStructural(P *Program, C *Contracts, st *Structural) *Unit {
	u := newUnit(P, C, "structural:"+st.Kind+":"+st.Target)
	switch st.Kind {
	case "nocallers", "callersonly", "pkgcallersonly":
		// pkgcallersonly: the restriction applies to the functions of the contract file's own package only
		key := st.Target
		if _, ok := P.Funcs[key]; !ok {
			key = st.Pkg + "." + st.Target
		}
		target := P.Funcs[key]
		if target == nil {
			u.oblige(u.Name+"#contract-binding", "contract-binding", "function "+st.Target+" exists", "false", nil)
			return u
		}
		var callers []string
		for k, fn := range P.Funcs {
			if !strings.HasPrefix(k, modPath) {
				continue
			}
			if st.Kind == "pkgcallersonly" {
				pp := ""
				if fn.Pkg != nil {
					pp = fn.Pkg.Pkg.Path()
				} else if fn.Origin() != nil && fn.Origin().Pkg != nil {
					pp = fn.Origin().Pkg.Pkg.Path()
				}
				if pp != st.Pkg {
					continue
				}
			}
			for _, b := range fn.Blocks {
				for _, ins := range b.Instrs {
					if ci, ok := ins.(ssa.CallInstruction); ok && ci.Common().StaticCallee() == target {
						okCaller := false
						for _, a := range st.Allowed {
							if shortKey(k) == a || strings.HasSuffix(k, "."+a) || strings.HasSuffix(stripBrackets(k), "."+a) {
								okCaller = true
							}
						}
						if !okCaller {
							callers = append(callers, shortKey(k))
						}
					}
					if _, isDbg := ins.(*ssa.DebugRef); isDbg {
						continue // source-position bookkeeping, not a use
					}
					for _, op := range ins.Operands(nil) {
						if op != nil && *op == ssa.Value(target) {
							if ci, ok := ins.(ssa.CallInstruction); !ok || ci.Common().Value != *op {
								callers = append(callers, shortKey(k)+" (as a value)")
							}
						}
					}
				}
			}
		}
		goal := "true"
		desc := "no non-test code calls " + st.Target + ": " + st.Why
		if st.Kind == "callersonly" {
			desc = "only " + strings.Join(st.Allowed, ", ") + " call " + st.Target + ": " + st.Why
		}
		if st.Kind == "pkgcallersonly" {
			desc = "in package " + st.Pkg + " only [" + strings.Join(st.Allowed, ", ") + "] call " + st.Target + ": " + st.Why
		}
		if len(callers) > 0 {
			goal = "false"
			desc += " — called from " + strings.Join(callers, ", ")
		}
		o := u.oblige(u.Name+"#nocallers", "structural", desc, goal, nil)
		if goal == "false" {
			o.Kind = "contract-binding"
		}
	case "storesonly":
		// object invariant support: the field is assigned only inside the listed functions (which are under contract)
		dot := strings.LastIndex(st.Target, ".")
		if dot < 0 {
			u.oblige(u.Name+"#contract-binding", "contract-binding", "storesonly needs Type.field", "false", nil)
			return u
		}
		tname, fname := st.Target[:dot], st.Target[dot+1:]
		isT := func(t types.Type) bool {
			for {
				if p, ok := types.Unalias(t).(*types.Pointer); ok {
					t = p.Elem()
					continue
				}
				break
			}
			n, ok := types.Unalias(t).(*types.Named)
			return ok && n.Obj().Name() == tname && n.Obj().Pkg() != nil && n.Obj().Pkg().Path() == st.Pkg
		}
		found := false
		var writers []string
		allowed := func(k string) bool {
			for _, a := range st.Allowed {
				if shortKey(k) == a || strings.HasSuffix(k, "."+a) || strings.HasPrefix(shortKey(k), a+"$") {
					return true
				}
			}
			return false
		}
		var keys []string
		for k := range P.Funcs {
			if strings.HasPrefix(k, modPath) {
				keys = append(keys, k)
			}
		}
		sort.Strings(keys)
		for _, k := range keys {
			fn := P.Funcs[k]
			for _, b := range fn.Blocks {
				for _, ins := range b.Instrs {
					if fa, ok := ins.(*ssa.FieldAddr); ok && isT(fa.X.Type()) {
						sty, _, _ := derefStruct(fa.X.Type())
						if sty != nil && sty.Field(fa.Field).Name() == fname {
							found = true
							// any use other than a load is treated as a possible store (address escapes, Store)
							for _, ref := range *fa.Referrers() {
								if un, ok := ref.(*ssa.UnOp); ok && un.Op == token.MUL {
									continue
								}
								if _, ok := ref.(*ssa.DebugRef); ok {
									continue
								}
								if !allowed(k) {
									writers = append(writers, shortKey(k))
								}
							}
						}
					}
					if stI, ok := ins.(*ssa.Store); ok && isT(stI.Val.Type()) {
						if _, isPtr := types.Unalias(stI.Val.Type()).(*types.Pointer); !isPtr && !allowed(k) {
							writers = append(writers, shortKey(k)+" (whole-struct store)")
						}
					}
				}
			}
		}
		goal := "true"
		desc := "field " + st.Target + " is assigned only in " + strings.Join(st.Allowed, ", ") + ": " + st.Why
		if !found {
			goal = "false"
			desc += " — no such field access found"
		}
		if len(writers) > 0 {
			goal = "false"
			desc += " — also written (or its address taken) in " + strings.Join(writers, ", ")
		}
		o := u.oblige(u.Name+"#storesonly", "structural", desc, goal, nil)
		if goal == "false" {
			o.Kind = "contract-binding"
		}
	default:
		u.oblige(u.Name+"#contract-binding", "contract-binding", "unknown structural obligation "+st.Kind, "false", nil)
	}
	return u
}

func hasProp(ps []string, p string) bool {
	for _, x := range ps {
		if x == p {
			return true
		}
	}
	return false
}

func cmdCheck(args []string) int {
	fs := flag.NewFlagSet("check", flag.ExitOnError)
	prop := fs.String("property", "", "property id")
	tier := fs.String("tier", "", "quick|thorough")
	fs.Parse(args)
	if *prop == "" {
		usage()
	}
	if *tier == "" {
		*tier = os.Getenv("VERIF_TIER")
	}
	if *tier != "thorough" {
		*tier = "quick"
	}
	seed := 0
	if s := os.Getenv("VERIF_SEED"); s != "" {
		seed, _ = strconv.Atoi(s)
	}
	t0 := time.Now()
	P, err := loadProgram(nil)
	if err != nil {
		fmt.Fprintf(os.Stderr, "govc: cannot load /repo: %v\n", err)
		return 2
	}
	C, err := loadContracts()
	if err != nil {
		fmt.Fprintf(os.Stderr, "govc: cannot load contracts: %v\n", err)
		return 2
	}
	if len(C.Problems) > 0 {
		for _, p := range C.Problems {
			fmt.Fprintln(os.Stderr, "govc:", p)
		}
		return 2
	}
	run := &propertyRun{ID: *prop, Tier: *tier, Seed: seed}
	run.LoadS = time.Since(t0).Seconds()
	run.Units, _ = unitsFor(P, C, *prop)
	if len(run.Units) == 0 {
		fmt.Fprintf(os.Stderr, "govc: no contracts are tagged with property %s\n", *prop)
		return 2
	}
	timeout := 60
	if *tier == "thorough" {
		timeout = 120
	}
	dir, _ := os.MkdirTemp("", "govc-*")
	defer os.RemoveAll(dir)
	dischargeAll(run.Units, timeout, seed, dir)
	if *tier == "thorough" {
		// stability pass: re-run discharged obligations with two more seeds
		stabilityPass(run.Units, timeout, seed, dir)
	}
	run.Bounded = runBounded(*prop, *tier)
	if *tier == "thorough" {
		run.Corpus = corpusFor(*prop)
	}
	run.WallS = time.Since(t0).Seconds()
	return report(run, C)
}

// stabilityPass re-solves every discharged obligation with other seeds; one that flips is demoted.
func stabilityPass(units []*Unit, timeout, seed int, dir string) {
	for pass := 1; pass <= 2; pass++ {
		var clones []*Unit
		for _, u := range units {
			cu := *u
			cu.obls = nil
			for _, o := range u.obls {
				if o.Result == "discharged" && !o.ExpectSat {
					co := *o
					cu.obls = append(cu.obls, &co)
				}
			}
			clones = append(clones, &cu)
		}
		dischargeAll(clones, timeout, seed+pass*7919, dir)
		for ui, cu := range clones {
			byName := map[string]*Obligation{}
			for _, o := range cu.obls {
				byName[o.Name] = o
			}
			for _, o := range units[ui].obls {
				if c, ok := byName[o.Name]; ok && c.Result != "discharged" {
					o.Result = "failed"
					o.Output = fmt.Sprintf("unstable: discharged with seed %d but not with seed %d\n%s", seed, seed+pass*7919, c.Output)
				}
			}
		}
	}
}

func sanitize(s string) string {
	var b strings.Builder
	for _, c := range s {
		if c >= 'a' && c <= 'z' || c >= 'A' && c <= 'Z' || c >= '0' && c <= '9' || c == '-' || c == '_' || c == '.' {
			b.WriteRune(c)
		} else {
			b.WriteRune('_')
		}
	}
	return b.String()
}

func report(run *propertyRun, C *Contracts) int {
	known := loadKnownFindings()
	vdir := outDir()
	total, discharged := 0, 0
	var solverTime float64
	bySolver := map[string]int{}
	var samples []any
	var failed []*Obligation
	var funcs []string
	var lemmas []string
	assume := map[string]bool{}
	trustedUsed := map[string]bool{}
	inlined := map[string]bool{}
	covers := 0
	for _, u := range run.Units {
		if strings.HasPrefix(u.Name, "lemma:") {
			lemmas = append(lemmas, u.Name)
		} else {
			funcs = append(funcs, u.Name)
		}
		for _, n := range u.notes {
			assume[n] = true
		}
		for k := range u.usedContracts {
			if c := C.Funcs[k]; c != nil && c.Trusted {
				note := c.TrustNote
				trustedUsed[shortKey(k)+": "+note] = true
			}
		}
		for k := range u.inlined {
			inlined[shortKey(k)] = true
		}
		for _, o := range u.obls {
			if o.ExpectSat {
				covers++
			}
			total++
			solverTime += o.TimeS
			switch o.Result {
			case "discharged":
				discharged++
				bySolver[o.Solver]++
			case "cover-unknown", "cover-sat-without-quantified-hypotheses":
				discharged++
				bySolver[o.Result]++
			default:
				failed = append(failed, o)
			}
			if len(samples) < 12 && o.Result == "discharged" && !o.ExpectSat {
				samples = append(samples, map[string]any{"obligation": o.Name, "kind": o.Kind, "what": o.Desc, "solver": o.Solver, "time_s": round3(o.TimeS)})
			}
		}
	}
	for _, ax := range C.Axioms {
		assume["axiom "+ax.Name+": "+ax.Body.Text] = true
	}
	violations := 0
	var knownHit []string
	os.MkdirAll(filepath.Join(vdir, "replays", run.ID), 0o755)
	for _, o := range failed {
		var hit *knownFinding
		for i := range known {
			k := &known[i]
			if k.Property == run.ID && k.Status == "open" && k.Obligation == o.Name {
				hit = k
			}
		}
		if hit != nil {
			fmt.Printf("KNOWN-FINDING: property=%s %s (%s)\n", run.ID, hit.What, o.Name)
			knownHit = append(knownHit, o.Name)
			continue
		}
		violations++
		path := filepath.Join(vdir, "replays", run.ID, sanitize(o.Name)+".json")
		confirmed, rnote := tryReplay(o)
		rep := map[string]any{
			"property": run.ID, "obligation": o.Name, "kind": o.Kind, "what": o.Desc, "function": o.Func,
			"solver": o.Solver, "solver_time_s": round3(o.TimeS), "solver_output": truncate(o.Output, 6000),
			"counterexample": truncate(o.Model, 6000), "replay": rnote, "confirmed_on_real_code": confirmed,
		}
		if o.Clause != nil {
			rep["clause"] = o.Clause.Text
			rep["contract_file"] = o.Clause.File
			rep["contract_line"] = o.Clause.Line
		}
		data, _ := json.MarshalIndent(rep, "", " ")
		os.WriteFile(path, data, 0o644)
		suffix := ""
		if !confirmed {
			suffix = " no-failing-input-found"
		}
		fmt.Printf("VIOLATION property=%s replay=%s obligation=%s%s\n", run.ID, path, o.Name, suffix)
	}
	for _, b := range run.Bounded {
		if !b.OK {
			violations++
			path := filepath.Join(vdir, "replays", run.ID, sanitize("bounded:"+b.Name)+".json")
			data, _ := json.MarshalIndent(map[string]any{"property": run.ID, "obligation": "bounded:" + b.Name, "what": b.Desc, "output": truncate(b.Output, 6000)}, "", " ")
			os.WriteFile(path, data, 0o644)
			fmt.Printf("VIOLATION property=%s replay=%s obligation=bounded:%s\n", run.ID, path, b.Name)
		}
	}
	// evidence
	sort.Strings(funcs)
	sort.Strings(lemmas)
	var assumptions []string
	for a := range assume {
		assumptions = append(assumptions, a)
	}
	for t := range trustedUsed {
		assumptions = append(assumptions, "trusted contract (assumed, not proved): "+t)
	}
	sort.Strings(assumptions)
	var inl []string
	for k := range inlined {
		inl = append(inl, k)
	}
	sort.Strings(inl)
	level := levelOf(run.ID)
	var bounded []any
	for _, b := range run.Bounded {
		bounded = append(bounded, map[string]any{"name": b.Name, "what": b.Desc, "ok": b.OK, "cases": b.Cases, "label": "bounded — not counted in obligations/discharged"})
	}
	// the slowest obligations (margin against the per-obligation timeout is visible in every evidence file)
	var all []*Obligation
	for _, u := range run.Units {
		all = append(all, u.obls...)
	}
	sort.SliceStable(all, func(i, j int) bool { return all[i].TimeS > all[j].TimeS })
	var slowest []any
	for i, o := range all {
		if i >= 8 || o.TimeS < 1 {
			break
		}
		slowest = append(slowest, map[string]any{"obligation": o.Name, "solver": o.Solver, "time_s": round3(o.TimeS), "result": o.Result})
	}
	if os.Getenv("VERIF_TIMES") != "" {
		for _, x := range slowest {
			fmt.Fprintf(os.Stderr, "slow: %v\n", x)
		}
	}
	cov := map[string]any{
		"slowest_obligations": slowest,
		"obligations": total, "discharged": discharged,
		"checker_cmd": fmt.Sprintf("/verif/bin/govc check --property %s --tier %s  (VCs from go/ssa of /repo's working tree; portfolio z3 4.8.12 | z3 5.1.0 | cvc5 1.0)", run.ID, run.Tier),
		"trusted_base": []string{
			"go/packages + go/types + go/ssa (x/tools v0.29.0) build the program the compiler would build",
			"govc VC generator (this repository) and the SMT solvers z3 4.8.12, z3 5.1.0, cvc5 1.0",
			"Go semantics as encoded by govc: wrap-around machine integers exactly, sequential execution within a function, component heaps, maps and slices as arrays",
		},
		"samples":                    samples,
		"functions_under_contract":   funcs,
		"lemmas":                     lemmas,
		"inlined_callees":            inl,
		"discharged_by_solver":       bySolver,
		"solver_time_s":              round3(solverTime),
		"cover_goals":                covers,
		"known_findings_hit":         knownHit,
		"bounded":                    bounded,
		"failed":                     names(failed),
		"integer_mode":               "mathematical Int with exact wrap-around per machine width; 'nooverflow' functions additionally prove no wrap occurs",
		"explanation":                explanationOf(run.ID),
		"load_s":                     round3(run.LoadS),
	}
	if run.Corpus != nil {
		cov["must_fail_corpus"] = run.Corpus
	}
	ev := map[string]any{
		"property_id": run.ID, "tier": run.Tier, "seed": run.Seed, "level": level,
		"coverage": cov, "assumptions": assumptions, "wall_s": round3(run.WallS), "violations": violations,
	}
	os.MkdirAll(filepath.Join(vdir, "evidence"), 0o755)
	data, _ := json.MarshalIndent(ev, "", " ")
	os.WriteFile(filepath.Join(vdir, "evidence", run.ID+".json"), data, 0o644)
	fmt.Printf("property %s tier=%s: %d/%d obligations discharged over %d functions and %d lemmas (%.1fs, solver %.1fs)\n", run.ID, run.Tier, discharged, total, len(funcs), len(lemmas), run.WallS, solverTime)
	if violations > 0 {
		return 1
	}
	return 0
}

func names(os []*Obligation) []string {
	var r []string
	for _, o := range os {
		r = append(r, o.Name)
	}
	return r
}

func truncate(s string, n int) string {
	if len(s) > n {
		return s[:n] + "…"
	}
	return s
}

func round3(f float64) float64 { return float64(int(f*1000)) / 1000 }

// levelOf / explanationOf: per-property evidence level (C01/C02 are local obligations only).
func levelOf(id string) string {
	switch id {
	case "C01", "C02":
		return "other"
	}
	return "proof"
}

func explanationOf(id string) string {
	switch id {
	case "C01", "C02":
		return "Only the per-participant obligations from which the standard agreement/validity argument composes are machine-checked (DESIGN.md §6 C01/C02 and Appendix A); the multi-node composition is a paper argument and is not checked. An edit preserving every local obligation yet breaking the global property would not be detected."
	}
	return "Every obligation is a verification condition generated from the SSA of the function in /repo's working tree against its contract and discharged by an SMT solver for all inputs and iteration counts."
}
