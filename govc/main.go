package main

import (
	"flag"
	"golang.org/x/tools/go/ssa"
	"fmt"
	"os"
	"sort"
	"strings"
	"time"
)

func main() {
	if len(os.Args) < 2 {
		usage()
	}
	switch os.Args[1] {
	case "check":
		os.Exit(cmdCheck(os.Args[2:]))
	case "verify":
		os.Exit(cmdVerify(os.Args[2:]))
	case "replay":
		os.Exit(cmdReplay(os.Args[2:]))
	case "selftest":
		os.Exit(cmdSelftest(os.Args[2:]))
	case "list":
		os.Exit(cmdList(os.Args[2:]))
	case "modset":
		os.Exit(cmdModset(os.Args[2:]))
	default:
		usage()
	}
}

func usage() {
	fmt.Fprintln(os.Stderr, "usage: govc check --property <id> [--tier quick|thorough] | verify --func <key> [--dump] | replay <file> | selftest | list")
	os.Exit(2)
}

// cmdVerify: debugging aid — verify the contract of one function (or lemma) and print every obligation.
func cmdVerify(args []string) int {
	fs := flag.NewFlagSet("verify", flag.ExitOnError)
	fname := fs.String("func", "", "function key (suffix match)")
	lemma := fs.String("lemma", "", "lemma name")
	dump := fs.String("dump", "", "write SMT of the named obligation (substring) to stdout")
	timeout := fs.Int("timeout", 10, "solver timeout (s)")
	verbose := fs.Bool("v", false, "print notes")
	fs.Parse(args)
	t0 := time.Now()
	P, err := loadProgram(nil)
	if err != nil {
		fmt.Fprintln(os.Stderr, err)
		return 2
	}
	C, err := loadContracts()
	if err != nil {
		fmt.Fprintln(os.Stderr, err)
		return 2
	}
	fmt.Fprintf(os.Stderr, "loaded in %.1fs\n", time.Since(t0).Seconds())
	var units []*Unit
	for _, fc := range C.Order {
		if *fname != "" && strings.HasSuffix(fc.Key, *fname) && !fc.Trusted {
			units = append(units, verifyFunc(P, C, fc))
		}
	}
	for _, l := range C.Lemmas {
		if *lemma != "" && l.Name == *lemma {
			units = append(units, verifyLemma(P, C, l))
		}
	}
	if len(units) == 0 {
		fmt.Fprintln(os.Stderr, "no matching contract")
		return 2
	}
	if *dump != "" {
		for _, u := range units {
			for _, o := range u.obls {
				if strings.Contains(o.Name, *dump) {
					fmt.Println("; " + o.Name)
					fmt.Println(u.buildQuery(o))
				}
			}
		}
		return 0
	}
	dir, _ := os.MkdirTemp("", "govc-*")
	defer os.RemoveAll(dir)
	dischargeAll(units, *timeout, 0, dir)
	bad := 0
	for _, u := range units {
		for _, o := range u.obls {
			fmt.Printf("%-12s %-10s %6.2fs  %s\n", o.Result, o.Solver, o.TimeS, o.Name)
			if o.Result == "failed" {
				bad++
				fmt.Printf("    %s\n", o.Desc)
				out := o.Output
				if len(out) > 1500 {
					out = out[:1500]
				}
				fmt.Printf("    %s\n", strings.ReplaceAll(strings.TrimSpace(out), "\n", "\n    "))
			}
		}
		if *verbose {
			sort.Strings(u.notes)
			for _, n := range u.notes {
				fmt.Println("  note:", n)
			}
		}
	}
	if bad > 0 {
		return 1
	}
	return 0
}

func cmdList(args []string) int {
	P, err := loadProgram(nil)
	if err != nil {
		fmt.Fprintln(os.Stderr, err)
		return 2
	}
	pat := ""
	if len(args) > 0 {
		pat = args[0]
	}
	for _, k := range P.sortedFuncKeys("") {
		if strings.Contains(k, pat) {
			fmt.Println(k)
		}
	}
	return 0
}

func cmdModset(args []string) int {
	P, err := loadProgram(nil)
	if err != nil {
		fmt.Fprintln(os.Stderr, err)
		return 2
	}
	C, _ := loadContracts()
	ma := getModAnalysis(P, C)
	for k, fn := range P.Funcs {
		if len(args) > 0 && strings.HasSuffix(k, args[0]) {
			ms := ma.modSetOf(fn)
			fmt.Println(k, "all=", ms.all, ms.why)
			for _, c := range ms.sorted() {
				fmt.Println("   ", c)
			}
			for i, mm := range ms.byParam {
				for c := range mm {
					fmt.Printf("    param %d: %s\n", i, c)
				}
			}
			if len(args) > 1 {
				// shortest call path to a function that writes component args[1] directly
				type node struct {
					f    *ssa.Function
					path string
				}
				seen := map[*ssa.Function]bool{fn: true}
				queue := []node{{fn, fn.Name()}}
				for len(queue) > 0 {
					n := queue[0]
					queue = queue[1:]
					d, callees := ma.directOf(n.f)
					if _, ok := d.flat()[args[1]]; ok {
						fmt.Println("  path:", n.path)
						break
					}
					for _, cs := range callees {
						c := cs.callee
						if !seen[c] {
							seen[c] = true
							queue = append(queue, node{c, n.path + " -> " + c.String()})
						}
					}
				}
			}
		}
	}
	return 0
}
