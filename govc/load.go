package main

import (
	"fmt"
	"go/token"
	"go/types"
	"os"
	"sort"
	"strings"

	"golang.org/x/tools/go/packages"
	"golang.org/x/tools/go/ssa"
	"golang.org/x/tools/go/ssa/ssautil"
)

const modPath = "github.com/filecoin-project/go-f3"

// Program is the loaded working tree of /repo: typed syntax plus SSA.
type Program struct {
	Fset   *token.FileSet
	Pkgs   []*packages.Package
	Prog   *ssa.Program
	ByPath map[string]*packages.Package
	SSAPkg map[string]*ssa.Package
	// funcs by qualified name "pkgpath.Func" or "pkgpath.(*T).M" / "pkgpath.(T).M"
	Funcs map[string]*ssa.Function
}

var defaultPatterns = []string{
	".", "./gpbft", "./certs", "./certstore", "./internal/writeaheadlog", "./internal/caching",
	"./certexchange", "./certexchange/polling", "./chainexchange", "./pmsg", "./sim", "./certchain",
	"./merkle", "./ec", "./manifest", "./internal/encoding", "./internal/clock",
}

func repoDir() string {
	if d := os.Getenv("VERIF_REPO"); d != "" {
		return d
	}
	return "/repo"
}

func loadProgram(patterns []string) (*Program, error) {
	if len(patterns) == 0 {
		patterns = defaultPatterns
	}
	cfg := &packages.Config{
		Mode:       packages.LoadAllSyntax,
		Dir:        repoDir(),
		BuildFlags: []string{"-tags=verif", "-mod=mod"},
		Env:        append(os.Environ(), "GOFLAGS=-mod=mod", "GOPROXY=off"),
	}
	pkgs, err := packages.Load(cfg, patterns...)
	if err != nil {
		return nil, err
	}
	var errs []string
	packages.Visit(pkgs, nil, func(p *packages.Package) {
		if strings.HasPrefix(p.PkgPath, modPath) {
			for _, e := range p.Errors {
				errs = append(errs, e.Error())
			}
		}
	})
	if len(errs) > 0 {
		return nil, fmt.Errorf("load errors:\n%s", strings.Join(errs, "\n"))
	}
	prog, _ := ssautil.AllPackages(pkgs, ssa.InstantiateGenerics|ssa.GlobalDebug)
	prog.Build()
	P := &Program{Prog: prog, Pkgs: pkgs, ByPath: map[string]*packages.Package{}, SSAPkg: map[string]*ssa.Package{}, Funcs: map[string]*ssa.Function{}}
	if len(pkgs) > 0 {
		P.Fset = pkgs[0].Fset
	}
	packages.Visit(pkgs, nil, func(p *packages.Package) {
		P.ByPath[p.PkgPath] = p
	})
	for _, sp := range prog.AllPackages() {
		P.SSAPkg[sp.Pkg.Path()] = sp
	}
	for fn := range ssautil.AllFunctions(prog) {
		if fn.Pkg == nil && fn.Origin() == nil {
			continue
		}
		name := funcKey(fn)
		if name != "" {
			if old, ok := P.Funcs[name]; !ok || old.Synthetic != "" {
				P.Funcs[name] = fn
			}
		}
	}
	// instantiations of generic functions are also reachable under their bracket-free name when that is unambiguous
	alias := map[string][]*ssa.Function{}
	for k, fn := range P.Funcs {
		if strings.Contains(k, "[") && len(fn.TypeArgs()) > 0 && fn.Blocks != nil && !hasTypeParamArg(fn) {
			alias[stripBrackets(k)] = append(alias[stripBrackets(k)], fn)
		}
	}
	for k, fns := range alias {
		if _, exists := P.Funcs[k]; !exists && len(fns) == 1 {
			P.Funcs[k] = fns[0]
		}
	}
	return P, nil
}

// hasTypeParamArg: an "instantiation" inside another generic body, still parameterised.
func hasTypeParamArg(fn *ssa.Function) bool {
	for _, t := range fn.TypeArgs() {
		if strings.Contains(types.TypeString(t, nil), "T") {
			if _, ok := types.Unalias(t).(*types.TypeParam); ok {
				return true
			}
			if p, ok := types.Unalias(t).(*types.Pointer); ok {
				if _, ok := types.Unalias(p.Elem()).(*types.TypeParam); ok {
					return true
				}
			}
		}
	}
	return false
}

// stripBrackets removes every [...] group (type parameter / argument lists) from a function key.
func stripBrackets(s string) string {
	var b strings.Builder
	d := 0
	for _, c := range s {
		switch c {
		case '[':
			d++
		case ']':
			d--
		default:
			if d == 0 {
				b.WriteRune(c)
			}
		}
	}
	return b.String()
}

// funcKey gives a stable qualified name: "<pkgpath>.F", "<pkgpath>.(*T).M", "<pkgpath>.(T).M".
// Anonymous functions get "<parent>$<n>". Instantiations of generics get their
// type arguments appended as go/ssa prints them.
func funcKey(fn *ssa.Function) string {
	if fn.Parent() != nil {
		return funcKey(fn.Parent()) + "$" + strings.TrimPrefix(fn.Name()[strings.LastIndex(fn.Name(), "$"):], "$")
	}
	pkg := fn.Pkg
	if pkg == nil && fn.Origin() != nil {
		pkg = fn.Origin().Pkg
	}
	if pkg == nil {
		return ""
	}
	path := pkg.Pkg.Path()
	if recv := fn.Signature.Recv(); recv != nil {
		t := recv.Type()
		ptr := false
		if p, ok := t.(*types.Pointer); ok {
			t = p.Elem()
			ptr = true
		}
		tn := types.TypeString(t, func(p *types.Package) string { return "" })
		tn = shortenTypeArgs(tn)
		if ptr {
			return path + ".(*" + tn + ")." + fn.Name()
		}
		return path + ".(" + tn + ")." + fn.Name()
	}
	return path + "." + shortenTypeArgs(fn.Name())
}

// shortenTypeArgs strips package paths inside [..] type argument lists.
func shortenTypeArgs(s string) string {
	i := strings.Index(s, "[")
	if i < 0 {
		return s
	}
	head, rest := s[:i], s[i:]
	var b strings.Builder
	tok := ""
	flush := func() {
		if j := strings.LastIndex(tok, "/"); j >= 0 {
			tok = tok[j+1:]
		}
		b.WriteString(tok)
		tok = ""
	}
	for _, c := range rest {
		switch c {
		case '[', ']', ',', ' ', '*':
			flush()
			b.WriteRune(c)
		default:
			tok += string(c)
		}
	}
	flush()
	return head + b.String()
}

// resolveFunc finds a function by a user-written key: either the full key, or
// "pkgname.F" / "pkgname.(*T).M" using the last path element, or relative to pkgPath.
func (P *Program) resolveFunc(pkgPath, name string) *ssa.Function {
	if f, ok := P.Funcs[name]; ok {
		return f
	}
	if f, ok := P.Funcs[pkgPath+"."+name]; ok {
		return f
	}
	// Try by package short name.
	var hits []*ssa.Function
	for k, f := range P.Funcs {
		if strings.HasSuffix(k, "/"+name) || k == name {
			hits = append(hits, f)
		}
	}
	if len(hits) == 1 {
		return hits[0]
	}
	// external packages by import path, e.g. "bytes.Equal"
	return nil
}

func (P *Program) sortedFuncKeys(prefix string) []string {
	var ks []string
	for k := range P.Funcs {
		if strings.HasPrefix(k, prefix) {
			ks = append(ks, k)
		}
	}
	sort.Strings(ks)
	return ks
}
