package main

import (
	"fmt"
	"go/types"
	"sort"
	"strings"

	"golang.org/x/tools/go/ssa"
)

// Val is the symbolic value of an SSA value or spec expression.
type Val struct {
	T     types.Type
	S     string // SMT term
	Tuple []*Val
	Place *Place // pointer values that are interior addresses (field / element)
	Math  bool   // mathematical integer (spec), no wrap-around
}

// Place is a symbolic address: base object + optional element index + nested field path.
type Place struct {
	Base  string     // ref term of the root object (pointer) or backing array
	BaseT types.Type // type of the object Base points to (element type when Elem)
	Elem  bool
	Idx   string
	Path  []int
	// provenance for loop-havoc refinement
	RootSSA ssa.Value
}

func (p *Place) typ() types.Type {
	t := p.BaseT
	for _, f := range p.Path {
		st := t.Underlying().(*types.Struct)
		t = st.Field(f).Type()
	}
	return t
}

func (p *Place) extend(f int) *Place {
	np := *p
	np.Path = append(append([]int{}, p.Path...), f)
	return &np
}

// State maps heap component names to their current SMT terms (absent = initial constant).
type State struct {
	comps map[string]string
	epoch int // components absent from comps read as "<name>@<epoch>"
}

func (s *State) clone() *State {
	n := &State{comps: make(map[string]string, len(s.comps)), epoch: s.epoch}
	for k, v := range s.comps {
		n.comps[k] = v
	}
	return n
}

// Obligation is one proof goal: Goal must be valid under the first NAsserts assertions of the unit.
type Obligation struct {
	Name      string
	Kind      string
	Desc      string
	Goal      string
	NAsserts  int
	ExpectSat bool // cover goal: the conjunction asserts ∧ Goal must be satisfiable
	Func      string
	Clause    *Clause
	// filled by solver
	Result  string
	Solver  string
	TimeS   float64
	Model   string
	Output  string
	Known   string // matching known finding id
	Replay  string
	Vars    map[string]string // input name -> SMT term, for model projection
	Trusted bool
	RInfo   *ReplayInfo
	Harness string
	HarnessPkg string
}

// Unit is one verification unit (a function under contract, or a lemma).
type Unit struct {
	Name     string
	S        *Sorts
	P        *Program
	C        *Contracts
	asserts  []string
	obls     []*Obligation
	compSort map[string]string
	notes    []string // abstractions applied (unsupported instructions, havoc'd calls)
	assumed  map[string]bool
	nref     int
	nepoch   int
	errGlobals []string
	globals  map[string]int
	depth    int
	axiomsIn bool
	specDecl map[string]bool
	fc       *FuncContract
	problems []string
	inlined  map[string]bool
	usedContracts map[string]bool
	defs     []taggedDef // definitions of opaque predicates
}

type taggedDef struct {
	pred    string
	formula string
}

func newUnit(P *Program, C *Contracts, name string) *Unit {
	return &Unit{Name: name, S: newSorts(), P: P, C: C, compSort: map[string]string{}, assumed: map[string]bool{}, globals: map[string]int{}, specDecl: map[string]bool{}, inlined: map[string]bool{}, usedContracts: map[string]bool{}}
}

func (u *Unit) assert(f string) {
	if f == "true" {
		return
	}
	u.asserts = append(u.asserts, f)
}

func (u *Unit) note(format string, a ...any) {
	n := fmt.Sprintf(format, a...)
	if !u.assumed[n] {
		u.assumed[n] = true
		u.notes = append(u.notes, n)
	}
}

func (u *Unit) oblige(name, kind, desc, goal string, cl *Clause) *Obligation {
	o := &Obligation{Name: name, Kind: kind, Desc: desc, Goal: goal, NAsserts: len(u.asserts), Clause: cl, Func: u.Name}
	u.obls = append(u.obls, o)
	return o
}

// comp returns the current term of a heap component in st, declaring its initial constant on demand.
func (u *Unit) comp(st *State, name, sort string) string {
	if t, ok := st.comps[name]; ok {
		return t
	}
	u.compInit(name, sort)
	if st.epoch == 0 {
		return name + "@0"
	}
	n := fmt.Sprintf("|%s@e%d|", name, st.epoch)
	u.S.declare(n, sort)
	return n
}

func (u *Unit) compInit(name, sort string) string {
	if _, ok := u.compSort[name]; !ok {
		if sort == "" {
			panic("component " + name + " used before its sort is known")
		}
		u.compSort[name] = sort
		u.S.declare(name+"@0", sort)
	}
	return name + "@0"
}

func (u *Unit) newEpoch() int {
	u.nepoch++
	return u.nepoch
}

func (u *Unit) globalRef(name string) string {
	if n, ok := u.globals[name]; ok {
		return intLit64(int64(-n))
	}
	n := len(u.globals) + 1
	u.globals[name] = n
	return intLit64(int64(-n))
}

// ---------------------------------------------------------------------------

// Frame is the symbolic execution of one function body (top level or inlined).
type Frame struct {
	u       *Unit
	fn      *ssa.Function
	fc      *FuncContract
	prefix  string
	vals    map[ssa.Value]*Val
	reach   map[int]string
	exitSt  map[int]*State
	edge    map[[2]int]string // (from block, succ position) -> condition
	loops   map[int]*loopInfo // by header block index
	entrySt *State
	rets    []retPoint
	top     bool
	names   map[string][]nameBinding
	callCount map[string]int
	dry     bool
	written map[int]map[string]bool // block -> comps written (dry pass)
	curBlock *ssa.BasicBlock
	parent  *Frame
	deferred []deferredCall
	freeVars map[*ssa.FreeVar]*Val
	closureMap map[string]*ssa.MakeClosure
	allow   map[string]*allowedSet // modifies clause evaluated at entry (nil: no frame reasoning)
	callResults map[string]ssa.Value
	siteOrd map[ssa.Instruction]int
	pendingAfter []ssa.Instruction
	callArgVals map[string][]*Val
	siteReach   map[string]string // reach condition under which the n-th call of a callee was executed (called(f, n))
}

type deferredCall struct {
	call *ssa.Defer
}

type nameBinding struct {
	block *ssa.BasicBlock
	idx   int
	val   ssa.Value
	isAddr bool
}

type retPoint struct {
	reach   string
	results []*Val
	st      *State
	block   int
}

type loopInfo struct {
	header  *ssa.BasicBlock
	blocks  map[int]bool
	latches []*ssa.BasicBlock
	ordinal int
	spec    *LoopSpec
	invs    []*invariant
	entry   *State
}

func (fr *Frame) name(v ssa.Value) string {
	return "|" + fr.prefix + v.Name() + "|"
}

// findLoops computes natural loops from back edges (edge b->h where h dominates b).
func findLoops(fn *ssa.Function) map[int]*loopInfo {
	loops := map[int]*loopInfo{}
	for _, b := range fn.Blocks {
		for _, s := range b.Succs {
			if s.Dominates(b) {
				li := loops[s.Index]
				if li == nil {
					li = &loopInfo{header: s, blocks: map[int]bool{s.Index: true}}
					loops[s.Index] = li
				}
				li.latches = append(li.latches, b)
				// collect body: nodes that reach b without passing through s
				stack := []*ssa.BasicBlock{b}
				for len(stack) > 0 {
					x := stack[len(stack)-1]
					stack = stack[:len(stack)-1]
					if li.blocks[x.Index] {
						continue
					}
					li.blocks[x.Index] = true
					for _, p := range x.Preds {
						stack = append(stack, p)
					}
				}
			}
		}
	}
	// ordinals by header index order (source order)
	var hs []int
	for h := range loops {
		hs = append(hs, h)
	}
	sort.Ints(hs)
	for i, h := range hs {
		loops[h].ordinal = i + 1
	}
	return loops
}

// rpo returns blocks in reverse post-order over forward edges (back edges ignored).
func rpo(fn *ssa.Function, loops map[int]*loopInfo) []*ssa.BasicBlock {
	seen := map[int]bool{}
	var order []*ssa.BasicBlock
	var dfs func(b *ssa.BasicBlock)
	dfs = func(b *ssa.BasicBlock) {
		seen[b.Index] = true
		for _, s := range b.Succs {
			if s.Dominates(b) { // back edge
				continue
			}
			if !seen[s.Index] {
				dfs(s)
			}
		}
		order = append(order, b)
	}
	if len(fn.Blocks) > 0 {
		dfs(fn.Blocks[0])
	}
	if fn.Recover != nil && !seen[fn.Recover.Index] {
		// recover block is only reachable by panics: not executed
	}
	for i, j := 0, len(order)-1; i < j; i, j = i+1, j-1 {
		order[i], order[j] = order[j], order[i]
	}
	return order
}

func isBackEdge(from, to *ssa.BasicBlock) bool { return to.Dominates(from) }

// run executes the body. args are bound to parameters; st is the entry state; reach the entry condition.
func (fr *Frame) run(reach string, st *State, args []*Val) {
	fn := fr.fn
	u := fr.u
	pre := fr.vals
	fr.vals = map[ssa.Value]*Val{}
	for k, v := range pre {
		if _, ok := k.(*ssa.FreeVar); ok {
			fr.vals[k] = v // captured variables named by the closure's own contract
		}
	}
	fr.reach = map[int]string{}
	fr.exitSt = map[int]*State{}
	fr.edge = map[[2]int]string{}
	fr.callCount = map[string]int{}
	fr.loops = findLoops(fn)
	fr.entrySt = st
	for i, p := range fn.Params {
		fr.vals[p] = args[i]
	}
	fr.collectNames()
	if !fr.dry {
		// dry pass to find which components each block writes (for loop havoc)
		if len(fr.loops) > 0 {
			d := &Frame{u: dryUnit(u), fn: fn, fc: fr.fc, prefix: fr.prefix, top: fr.top, dry: true, freeVars: fr.freeVars}
			d.written = map[int]map[string]bool{}
			dargs := make([]*Val, len(args))
			copy(dargs, args)
			d.run("true", &State{comps: map[string]string{}}, dargs)
			fr.written = d.written
			// the dry unit shares Sorts with u, so declarations made there remain valid
		}
	}
	order := rpo(fn, fr.loops)
	for _, b := range order {
		fr.curBlock = b
		var inReach []string
		var inStates []*State
		var inEdges []string
		type predEdge struct {
			pred *ssa.BasicBlock
			pos  int
			cond string
			back bool
		}
		var pes []predEdge
		// Each pred may have several edges to b.
		for _, p := range b.Preds {
			for k, s := range p.Succs {
				if s == b {
					dup := false
					for _, e := range pes {
						if e.pred == p && e.pos == k {
							dup = true
						}
					}
					if !dup {
						pes = append(pes, predEdge{pred: p, pos: k, back: isBackEdge(p, b)})
					}
				}
			}
		}
		var cur *State
		var myReach string
		li := fr.loops[b.Index]
		if b.Index == 0 {
			myReach = reach
			cur = st.clone()
		} else {
			for i := range pes {
				e := &pes[i]
				if e.back {
					continue
				}
				c, ok := fr.edge[[2]int{e.pred.Index, e.pos}]
				if !ok {
					// predecessor not executed (unreachable from entry)
					continue
				}
				e.cond = c
				inReach = append(inReach, c)
				inStates = append(inStates, fr.exitSt[e.pred.Index])
				inEdges = append(inEdges, c)
			}
			if len(inReach) == 0 {
				continue // unreachable
			}
			myReach = or(inReach...)
			cur = fr.mergeStates(b, inEdges, inStates)
		}
		// give the reach condition a name to keep formulas small
		rname := fmt.Sprintf("|%sreach_%d|", fr.prefix, b.Index)
		if !fr.dry {
			u.S.declare(rname, "Bool")
		}
		// phis
		edgeOfPred := func(p *ssa.BasicBlock, nth int) string {
			// the nth occurrence of p in b.Preds corresponds to the nth edge p->b
			cnt := 0
			for k, s := range p.Succs {
				if s == b {
					if cnt == nth {
						c := fr.edge[[2]int{p.Index, k}]
						return c
					}
					cnt++
				}
			}
			return "false"
		}
		if li != nil {
			// loop header: invariants on entry, havoc, assume invariants
			u.assertDef(fr, rname, myReach)
			fr.loopHeader(b, li, rname, cur, edgeOfPred)
			// after havoc the header is reached in an arbitrary iteration
			hr := fmt.Sprintf("|%sloop_%d|", fr.prefix, b.Index)
			if !fr.dry {
				u.S.declare(hr, "Bool")
				// an iteration is only ever reached if the loop was entered
				u.assert(implies(hr, rname))
			}
			fr.reach[b.Index] = hr
			cur = fr.exitSt[b.Index] // set by loopHeader to the havoc'd state
		} else {
			u.assertDef(fr, rname, myReach)
			fr.reach[b.Index] = rname
			occ := map[*ssa.BasicBlock]int{}
			var phiEdges []string
			for _, p := range b.Preds {
				phiEdges = append(phiEdges, edgeOfPred(p, occ[p]))
				occ[p]++
			}
			for _, ins := range b.Instrs {
				phi, ok := ins.(*ssa.Phi)
				if !ok {
					break
				}
				fr.doPhi(phi, phiEdges)
			}
		}
		fr.exitSt[b.Index] = cur
		fr.execBlock(b, cur)
	}
}

// dryUnit makes a throw-away unit sharing sort declarations, used for effect discovery.
func dryUnit(u *Unit) *Unit {
	d := &Unit{Name: u.Name + "#dry", S: u.S, P: u.P, C: u.C, compSort: u.compSort, assumed: map[string]bool{}, globals: u.globals, specDecl: u.specDecl, depth: u.depth, inlined: map[string]bool{}, usedContracts: map[string]bool{}}
	return d
}

func (u *Unit) assertDef(fr *Frame, name, term string) {
	if fr.dry {
		return
	}
	u.assert(eq(name, term))
}

func (fr *Frame) mergeStates(b *ssa.BasicBlock, conds []string, states []*State) *State {
	if len(states) == 1 {
		return states[0].clone()
	}
	u := fr.u
	keys := map[string]bool{}
	for _, s := range states {
		for k := range s.comps {
			keys[k] = true
		}
	}
	res := &State{comps: map[string]string{}, epoch: states[0].epoch}
	for _, s := range states[1:] {
		if s.epoch != res.epoch {
			res.epoch = u.newEpoch()
			break
		}
	}
	var ks []string
	for k := range keys {
		ks = append(ks, k)
	}
	sort.Strings(ks)
	for _, k := range ks {
		same := true
		first := u.comp(states[0], k, u.compSort[k])
		for _, s := range states[1:] {
			if u.comp(s, k, u.compSort[k]) != first {
				same = false
				break
			}
		}
		if same {
			res.comps[k] = first
			continue
		}
		n := u.S.fresh(fmt.Sprintf("%s%s@b%d", fr.prefix, k, b.Index), u.compSort[k])
		for i, s := range states {
			u.assert(implies(conds[i], eq(n, u.comp(s, k, u.compSort[k]))))
		}
		res.comps[k] = n
	}
	return res
}

func (fr *Frame) doPhi(phi *ssa.Phi, edges []string) {
	u := fr.u
	if fr.dry {
		fr.vals[phi] = fr.freshVal(phi.Type(), fr.prefix+phi.Name())
		return
	}
	var vs []*Val
	for _, e := range phi.Edges {
		vs = append(vs, fr.val(e))
	}
	res := fr.declVal(phi)
	// build nested ite over leaves
	fr.defineIte(res, edges, vs)
	_ = u
}

// defineIte asserts res = ite(edges[0], vs[0], ite(edges[1], vs[1], ...)) component-wise.
func (fr *Frame) defineIte(res *Val, edges []string, vs []*Val) {
	u := fr.u
	if res.Tuple != nil {
		for i := range res.Tuple {
			var sub []*Val
			for _, v := range vs {
				sub = append(sub, v.Tuple[i])
			}
			fr.defineIte(res.Tuple[i], edges, sub)
		}
		return
	}
	// pointer places: all edges must agree structurally, otherwise materialise
	terms := make([]string, len(vs))
	for i, v := range vs {
		terms[i] = fr.termOf(v)
	}
	expr := terms[len(terms)-1]
	for i := len(terms) - 2; i >= 0; i-- {
		expr = ite(edges[i], terms[i], expr)
	}
	u.assert(eq(res.S, expr))
}

// termOf materialises a value as a single SMT term. Interior pointers become opaque refs.
func (fr *Frame) termOf(v *Val) string {
	if v.Place != nil && v.S == "" {
		u := fr.u
		pl := v.Place
		if !pl.Elem && len(pl.Path) == 0 {
			return pl.Base
		}
		// opaque interior pointer: uninterpreted function of base (and index, path)
		fname := "iptr_" + mangle(shortTypeName(pl.BaseT))
		for _, f := range pl.Path {
			fname += fmt.Sprintf("_%d", f)
		}
		if pl.Elem {
			fname += "_e"
			u.S.declareFun(fname, []string{"Int", "Int"}, "Int")
			u.note("interior pointer materialised (%s): loads through it are not tracked", fname)
			return app(fname, pl.Base, pl.Idx)
		}
		u.S.declareFun(fname, []string{"Int"}, "Int")
		u.note("interior pointer materialised (%s): loads through it are not tracked", fname)
		return app(fname, pl.Base)
	}
	return v.S
}

// declVal declares SMT constants for an SSA value and records it.
func (fr *Frame) declVal(v ssa.Value) *Val {
	val := fr.freshValNamed(v.Type(), fr.prefix+v.Name())
	fr.vals[v] = val
	return val
}

func (fr *Frame) freshValNamed(t types.Type, name string) *Val {
	u := fr.u
	if tup, ok := t.(*types.Tuple); ok {
		res := &Val{T: t}
		for i := 0; i < tup.Len(); i++ {
			res.Tuple = append(res.Tuple, fr.freshValNamed(tup.At(i).Type(), fmt.Sprintf("%s#%d", name, i)))
		}
		return res
	}
	so := u.S.sortOf(t)
	n := "|" + name + "|"
	if u.S.declSeen[n] {
		n = u.S.fresh(name, so)
	} else {
		u.S.declare(n, so)
	}
	val := &Val{T: t, S: n}
	fr.assumeRange(val)
	return val
}

func (fr *Frame) freshVal(t types.Type, hint string) *Val {
	u := fr.u
	if tup, ok := t.(*types.Tuple); ok {
		res := &Val{T: t}
		for i := 0; i < tup.Len(); i++ {
			res.Tuple = append(res.Tuple, fr.freshVal(tup.At(i).Type(), fmt.Sprintf("%s#%d", hint, i)))
		}
		return res
	}
	so := u.S.sortOf(t)
	n := u.S.fresh(hint, so)
	val := &Val{T: t, S: n}
	fr.assumeRange(val)
	return val
}

// assumeRange asserts the machine range / well-formedness of a value of a Go type.
func (fr *Frame) assumeRange(v *Val) {
	if fr.dry || v.T == nil {
		return
	}
	if f := fr.u.rangeFormula(v.S, v.T, 0); f != "true" {
		fr.u.assert(f)
	}
}

// allocated: references held by a value were allocated before the current point (state st).
func (fr *Frame) allocated(v *Val, st *State) {
	if fr.dry || v == nil || v.T == nil || v.S == "" {
		return
	}
	if f := fr.u.allocFormula(v.S, v.T, st); f != "true" {
		fr.u.assert(f)
	}
}

func (u *Unit) allocFormula(term string, t types.Type, st *State) string {
	wm := u.comp(st, "WM", "Int")
	switch types.Unalias(t).Underlying().(type) {
	case *types.Pointer, *types.Map, *types.Chan:
		if u.S.sortOf(t) != "Int" {
			return "true"
		}
		return "(< " + term + " " + wm + ")"
	case *types.Slice:
		return "(< (sl_arr " + term + ") " + wm + ")"
	}
	return "true"
}

// rangeFormula gives the type invariant of a term of Go type t (integer ranges, slice shape).
func (u *Unit) rangeFormula(term string, t types.Type, depth int) string {
	t = types.Unalias(t)
	if typeKey(t) == "github.com/filecoin-project/go-state-types/big.Int" || typeKey(t) == "time.Time" {
		return "true"
	}
	if r := rangeOfBasic(t); r.ok {
		return r.inRange(term)
	}
	switch ut := t.Underlying().(type) {
	case *types.Slice:
		_ = ut
		// capacity bound: a slice of non-zero-size elements cannot exceed the 2^47-byte address space of the platforms Go runs on
		return fmt.Sprintf("(and (<= 0 (sl_off %s)) (<= 0 (sl_len %s)) (<= (sl_len %s) (sl_cap %s)) (<= (sl_cap %s) 140737488355328) (<= 0 (sl_arr %s)) (=> (= (sl_arr %s) 0) (= (sl_cap %s) 0)))", term, term, term, term, term, term, term, term)
	case *types.Struct:
		if depth > 3 {
			return "true"
		}
		so := u.S.sortOf(t)
		var parts []string
		for i := 0; i < ut.NumFields(); i++ {
			parts = append(parts, u.rangeFormula(app(u.S.selName(so, i), term), ut.Field(i).Type(), depth+1))
		}
		return and(parts...)
	case *types.Basic:
		if ut.Info()&types.IsString != 0 {
			return fmt.Sprintf("(<= 0 (strlen %s))", term)
		}
	case *types.Map, *types.Pointer, *types.Chan, *types.Signature:
		return "true"
	}
	return "true"
}

func (fr *Frame) collectNames() {
	fr.names = map[string][]nameBinding{}
	for _, b := range fr.fn.Blocks {
		for i, ins := range b.Instrs {
			if d, ok := ins.(*ssa.DebugRef); ok {
				id := identName(d)
				if id == "" {
					continue
				}
				fr.names[id] = append(fr.names[id], nameBinding{block: b, idx: i, val: d.X, isAddr: d.IsAddr})
			}
		}
	}
}

func identName(d *ssa.DebugRef) string {
	if d.Expr == nil {
		return ""
	}
	if id, ok := d.Expr.(interface{ String() string }); ok {
		_ = id
	}
	switch e := d.Expr.(type) {
	case interface{ Pos() int }:
		_ = e
	}
	return debugIdent(d)
}

func (fr *Frame) unsupported(ins ssa.Instruction, why string) {
	fr.u.note("abstracted in %s: %s (%s)", fr.fn.Name(), why, strings.TrimSpace(ins.String()))
}
