//go:build verif

// Contracts for package certstore, read by /verif/govc. Comments only.

package certstore

//@ func (*Store).Latest
//@   property C09, C20, C16
//@   pure
//@   ensures result == cs.latestCertificate
