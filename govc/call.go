package main

import (
	"fmt"
	"os"
	"go/ast"
	"go/constant"
	"go/token"
	"go/types"
	"sort"
	"strings"

	"golang.org/x/tools/go/ssa"
)

// Packages whose functions never touch verified state (logging, metrics, formatting, clocks).
var purePkgs = []string{
	"fmt", "log", "errors", "strings", "strconv", "math", "math/bits", "unicode", "unicode/utf8",
	"go.opentelemetry.io/otel", "github.com/ipfs/go-log", "go.uber.org/zap", "context", "time",
	"sync", "sync/atomic", "runtime", "os/signal", "bytes", "slices", "maps", "sort", "cmp",
	"github.com/filecoin-project/go-state-types/big", "math/big", "encoding/binary", "encoding/hex", "encoding/base64",
	"github.com/ipfs/go-cid", "github.com/multiformats", "golang.org/x/crypto", "hash", "crypto",
	"github.com/libp2p/go-libp2p/core/peer", "io", "reflect",
	"github.com/filecoin-project/go-f3/internal/measurements", "github.com/filecoin-project/go-clock",
	"github.com/ipfs/go-datastore.NewKey", "github.com/ipfs/go-datastore.RawKey",
}

// external functions that do mutate memory reachable from their arguments even though their package is "pure"
var mutatingExternals = map[string]bool{
	"sort.Sort": true, "sort.Ints": true, "sort.Slice": true, "sort.SliceStable": true, "sort.Stable": true, "sort.Strings": true,
	"slices.Sort": true, "slices.SortFunc": true, "slices.SortStableFunc": true, "slices.Reverse": true,
	"maps.Copy": true, "maps.DeleteFunc": true, "io.ReadFull": true, "io.ReadAtLeast": true, "io.Copy": true, "io.CopyN": true,
	"encoding/binary.Read": true, "encoding/binary.PutUvarint": true, "encoding/binary.Write": true,
	"bytes.(*Buffer).Write": true, "bytes.(*Buffer).WriteString": true, "bytes.(*Buffer).WriteByte": true, "bytes.(*Buffer).Reset": true,
	"bytes.(*Buffer).ReadFrom": true, "bytes.(*Buffer).Grow": true, "bytes.(*Buffer).Truncate": true,
	"sync.(*Once).Do": true, "sync.(*Pool).Get": true, "sync.(*Pool).Put": true,
	"slices.Insert": true, "slices.Delete": true, "slices.Grow": true,
}

func isPurePkgFunc(fn *ssa.Function) bool {
	key := funcKey(fn)
	if mutatingExternals[key] {
		return false
	}
	path := ""
	if fn.Pkg != nil {
		path = fn.Pkg.Pkg.Path()
	} else if fn.Origin() != nil && fn.Origin().Pkg != nil {
		path = fn.Origin().Pkg.Pkg.Path()
	}
	for _, p := range purePkgs {
		if path == p || strings.HasPrefix(path, p+"/") || strings.HasPrefix(key, p) {
			return true
		}
	}
	return false
}

// isReadOnlyPkgFunc: logging / formatting / metrics functions that do not even write through pointers they get.
func isReadOnlyPkgFunc(fn *ssa.Function) bool {
	path := ""
	if fn.Pkg != nil {
		path = fn.Pkg.Pkg.Path()
	} else if fn.Origin() != nil && fn.Origin().Pkg != nil {
		path = fn.Origin().Pkg.Pkg.Path()
	}
	for _, p := range []string{"fmt", "errors", "strings", "strconv", "go.uber.org/zap", "github.com/ipfs/go-log", "go.opentelemetry.io/otel", "log"} {
		if path == p || strings.HasPrefix(path, p+"/") {
			return true
		}
	}
	return false
}

func isNoopCallee(fn *ssa.Function) bool {
	key := funcKey(fn)
	switch key {
	case "sync.(*Mutex).Lock", "sync.(*Mutex).Unlock", "sync.(*RWMutex).Lock", "sync.(*RWMutex).Unlock",
		"sync.(*RWMutex).RLock", "sync.(*RWMutex).RUnlock", "sync.(*WaitGroup).Done", "sync.(*WaitGroup).Add",
		"context.WithCancel$1", "time.(*Timer).Stop", "time.(*Ticker).Stop":
		return true
	}
	return false
}

func (fr *Frame) call(b *ssa.BasicBlock, idx int, ins ssa.Instruction, cc *ssa.CallCommon, res ssa.Value, st *State, reach string) {
	u := fr.u
	setRes := func(v *Val) {
		if res != nil {
			fr.vals[res] = v
			if v != nil {
				for _, x := range splitResults(v, 0) {
					fr.allocated(x, st)
				}
			}
		}
	}
	var rt types.Type
	if res != nil {
		rt = res.Type()
	}
	// builtins
	if bi, ok := cc.Value.(*ssa.Builtin); ok {
		if bi.Name() == "close" {
			fr.callSiteSpecs(b, idx, ins, cc, res, st, reach) // closing a channel is addressable as "at close n"
		}
		fr.builtin(b, idx, ins, bi, cc, res, st, reach)
		return
	}
	var args []*Val
	for _, a := range cc.Args {
		args = append(args, fr.val(a))
	}
	callee := cc.StaticCallee()
	fr.callSiteSpecs(b, idx, ins, cc, res, st, reach)
	if mc, ok := fr.isIteratorCall(cc); ok {
		fr.iterCall(b, idx, ins, cc, mc, res, st, reach)
		return
	}
	if cc.IsInvoke() {
		// interface method: contract by "<iface type>.<method>" if any
		recv := fr.val(cc.Value)
		key := ifaceMethodKey(cc)
		if c := u.C.Funcs[key]; c != nil {
			fr.applyContract(b, idx, ins, c, nil, append([]*Val{recv}, args...), res, st, reach)
			return
		}
		if isPureIfaceMethod(cc) {
			setRes(fr.freshResult(rt, res))
			return
		}
		// class-hierarchy analysis: union of the module's implementations; external implementations are
		// assumed to write only what they are handed
		ma := getModAnalysis(u.P, u.C)
		union := &ModSet{comps: map[string]compRef{}}
		for _, impl := range ma.impls[cc.Method.Name()] {
			if it, ok := cc.Value.Type().Underlying().(*types.Interface); ok && types.Implements(recvType(impl), it) {
				ms := ma.modSetOf(impl)
				if ms.all {
					union.all = true
				}
				for k, v := range ms.comps {
					union.comps[k] = v
				}
			}
		}
		tmp := &ModSet{comps: map[string]compRef{}}
		ma.escapes(cc, tmp)
		for k, v := range tmp.comps {
			union.comps[k] = v
		}
		u.note("call through interface %s: frame = module implementations' inferred frames + objects handed over; result unconstrained", key)
		fr.havocModSet(union, st, key)
		fr.havocEscapedPlaces(cc, st)
		setRes(fr.freshResult(rt, res))
		return
	}
	if callee == nil {
		// closure / function value
		if mc, ok := cc.Value.(*ssa.MakeClosure); ok {
			callee = mc.Fn.(*ssa.Function)
			_ = callee
		}
		ma := getModAnalysis(u.P, u.C)
		union := &ModSet{comps: map[string]compRef{}}
		if sig, ok := cc.Value.Type().Underlying().(*types.Signature); ok {
			for _, f := range ma.bySig[types.TypeString(stripRecv(sig), nil)] {
				ms := ma.modSetOf(f)
				if ms.all {
					union.all = true
				}
				for k, v := range ms.flat() {
					union.comps[k] = v
				}
			}
		}
		ma.escapes(cc, union)
		u.note("dynamic call in %s: frame = all module functions of that signature; result unconstrained", fr.fn.Name())
		fr.havocModSet(union, st, "dynamic call")
		fr.havocEscapedPlaces(cc, st)
		setRes(fr.freshResult(rt, res))
		return
	}
	key := funcKey(callee)
	// a bound method closure / wrapper: look through synthetic wrappers
	if callee.Synthetic != "" && strings.Contains(callee.Synthetic, "wrapper") {
		// fallthrough to generic handling by key
	}
	opaque := false
	if top := fr.fcTop(); top != nil {
		for _, o := range top.Opaque {
			if o == key || strings.HasSuffix(key, "."+o) || strings.HasSuffix(key, "/"+o) {
				opaque = true
			}
		}
	}
	c := u.C.Funcs[key]
	if c == nil && strings.Contains(key, "[") && len(callee.TypeArgs()) > 0 {
		c = u.C.Funcs[stripBrackets(key)]
	}
	if c != nil && !opaque {
		// a contract that promises callers nothing (no requires / ensures / assumes, inferred frame: only call-site
		// obligations inside the callee) leaves the caller where it would be without one: small loop-free bodies are
		// inlined, which keeps interior pointers handed to the callee (&msg.Vote) precise
		if c.thin() && callee != nil && inModule(callee) && fr.canInline(callee) {
			u.usedContracts[c.Key] = true
			fr.inline(b, idx, ins, callee, args, res, st, reach)
			return
		}
		fr.applyContract(b, idx, ins, c, callee, args, res, st, reach)
		return
	}
	if isNoopCallee(callee) {
		setRes(fr.freshResult(rt, res))
		return
	}
	if isPurePkgFunc(callee) {
		if !isReadOnlyPkgFunc(callee) {
			fr.havocEscapedPlaces(cc, st)
		}
		setRes(fr.freshResult(rt, res))
		return
	}
	if !isPurePkgFunc(callee) && !inModule(callee) {
		// external function that may call back into the module or write what it is handed
		ma := getModAnalysis(u.P, u.C)
		ms := &ModSet{comps: map[string]compRef{}}
		ma.escapes(cc, ms)
		ma.callbacks(cc, ms)
		u.note("call to external %s (no contract): writes what it is handed plus the frames of module callbacks it may invoke; result unconstrained", key)
		fr.havocModSet(ms, st, key)
		fr.havocEscapedPlaces(cc, st)
		setRes(fr.freshResult(rt, res))
		return
	}
	// module function without contract: inline when small and loop-free
	if !opaque && fr.canInline(callee) {
		fr.inline(b, idx, ins, callee, args, res, st, reach)
		return
	}
	if strings.HasPrefix(key, modPath) && callee.Blocks != nil {
		ms := getModAnalysis(u.P, u.C).modSetOf(callee)
		u.note("call to %s (no contract): result unconstrained, frame inferred from its static call graph", shortKey(key))
		fr.havocModSet(ms, st, key, args...)
		fr.havocEscapedPlaces(cc, st)
		setRes(fr.freshResult(rt, res))
		return
	}
	u.note("call to external %s (no contract): everything reachable is havoc'd", key)
	fr.havocAll(st, key)
	setRes(fr.freshResult(rt, res))
}

func (fr *Frame) freshResult(rt types.Type, res ssa.Value) *Val {
	if rt == nil || res == nil {
		return nil
	}
	return fr.freshVal(rt, fr.prefix+res.Name())
}

func ifaceMethodKey(cc *ssa.CallCommon) string {
	t := cc.Value.Type()
	name := types.TypeString(t, func(p *types.Package) string { return p.Path() })
	return name + "." + cc.Method.Name()
}

func isPureIfaceMethod(cc *ssa.CallCommon) bool {
	t := types.TypeString(cc.Value.Type(), func(p *types.Package) string { return p.Path() })
	for _, p := range []string{"go.opentelemetry.io/otel", "context.Context", "error", "fmt.Stringer", "github.com/filecoin-project/go-f3/gpbft.Tracer", "hash.Hash"} {
		if strings.HasPrefix(t, p) {
			return true
		}
	}
	if cc.Method.Name() == "Error" || cc.Method.Name() == "String" {
		return true
	}
	return false
}

// havocEscapedPlaces forgets the contents of field/element addresses handed to a call.
func (fr *Frame) havocEscapedPlaces(cc *ssa.CallCommon, st *State) {
	for _, a := range cc.Args {
		v := fr.val(a)
		if v.Place != nil && (v.Place.Elem || len(v.Place.Path) > 0) {
			if fr.dry {
				fr.store(st, v.Place, "x")
				continue
			}
			t := v.Place.typ()
			nv := fr.freshVal(t, fr.prefix+"escaped")
			fr.store(st, v.Place, nv.S)
		}
	}
}

func (fr *Frame) canInline(fn *ssa.Function) bool {
	if fn.Blocks == nil || fr.u.depth >= 4 {
		return false
	}
	if !strings.HasPrefix(funcKey(fn), modPath) {
		return false
	}
	if len(findLoops(fn)) > 0 {
		return false
	}
	n := 0
	for _, b := range fn.Blocks {
		n += len(b.Instrs)
		for _, ins := range b.Instrs {
			switch ins.(type) {
			case *ssa.Select, *ssa.Go, *ssa.Defer:
				return false
			}
		}
	}
	if n > 400 {
		return false
	}
	// recursion guard
	for f := fr; f != nil; f = f.parent {
		if f.fn == fn {
			return false
		}
	}
	return true
}

func (fr *Frame) inline(b *ssa.BasicBlock, idx int, ins ssa.Instruction, callee *ssa.Function, args []*Val, res ssa.Value, st *State, reach string) {
	u := fr.u
	n := fr.callCount["inline:"+callee.Name()]
	fr.callCount["inline:"+callee.Name()] = n + 1
	sub := &Frame{u: u, fn: callee, prefix: fmt.Sprintf("%s%s.%d/", fr.prefix, callee.Name(), n), parent: fr, dry: fr.dry}
	u.depth++
	u.inlined[funcKey(callee)] = true
	sub.run(reach, st, args)
	u.depth--
	// merge return points
	if len(sub.rets) == 0 {
		// callee never returns (always panics): continuation unreachable
		if !fr.dry {
			u.assert(not(reach))
		}
		if res != nil {
			fr.vals[res] = fr.freshVal(res.Type(), fr.prefix+res.Name())
		}
		return
	}
	var conds []string
	var states []*State
	for _, r := range sub.rets {
		conds = append(conds, r.reach)
		states = append(states, r.st)
	}
	merged := fr.mergeStates(b, conds, states)
	st.comps = merged.comps
	st.epoch = merged.epoch
	if !fr.dry {
		// the call returns iff one of the return points is reached (panics inside are separate obligations)
		u.assert(implies(reach, or(conds...)))
	}
	if res != nil {
		sig := callee.Signature.Results()
		if sig.Len() == 0 {
			return
		}
		var out *Val
		if fr.dry {
			fr.vals[res] = fr.freshVal(res.Type(), fr.prefix+res.Name())
			return
		}
		out = fr.declVal(res)
		var vs []*Val
		for _, r := range sub.rets {
			if sig.Len() == 1 {
				vs = append(vs, r.results[0])
			} else {
				vs = append(vs, &Val{T: sig, Tuple: r.results})
			}
		}
		fr.defineIte(out, conds, vs)
	}
}

// contractEnv builds the spec environment of a callee contract at a call site or at the top level.
func (fr *Frame) contractEnv(c *FuncContract, callee *ssa.Function, args []*Val, results []*Val, cur, old *State) *SpecEnv {
	u := fr.u
	vars := map[string]*Val{}
	var pkg *types.Package
	if callee != nil {
		for i, p := range callee.Params {
			if i < len(args) {
				vars[p.Name()] = retype(args[i], p.Type())
			}
		}
		if callee == fr.fn {
			// the contract of a closure may name the variables it captures
			if fr.vals == nil {
				fr.vals = map[ssa.Value]*Val{}
			}
			for _, fv := range callee.FreeVars {
				v := fr.val(fv)
				if _, isPtr := fv.Type().Underlying().(*types.Pointer); isPtr && fr.freeVars == nil {
					// captured by reference: go/ssa hands the closure the variable's address; a variable that is
					// never reassigned after capture (the only kind contracts name) is read through it
					if _, ok := vars[fv.Name()]; !ok {
						vars[fv.Name()] = fr.load(cur, fr.placeOf(v))
					}
					continue
				}
				if _, ok := vars[fv.Name()]; !ok {
					vars[fv.Name()] = v
				}
			}
		}
		if callee.Pkg != nil {
			pkg = callee.Pkg.Pkg
		} else if callee.Origin() != nil && callee.Origin().Pkg != nil {
			pkg = callee.Origin().Pkg.Pkg
		}
		sig := callee.Signature
		for i := 0; i < sig.Results().Len(); i++ {
			if i >= len(results) {
				break
			}
			name := sig.Results().At(i).Name()
			if i < len(c.Results) {
				name = c.Results[i]
			}
			if name == "" || name == "_" {
				name = fmt.Sprintf("result%d", i)
				if sig.Results().Len() == 1 {
					name = "result"
				}
			}
			vars[name] = results[i]
			if sig.Results().Len() == 1 {
				vars["result"] = results[i]
			}
		}
	} else {
		// interface method or body-less external: parameters are named by "results"/positional p0.. names
		for i, a := range args {
			vars[fmt.Sprintf("p%d", i)] = a
		}
		for i, r := range results {
			name := fmt.Sprintf("result%d", i)
			if i < len(c.Results) {
				name = c.Results[i]
			}
			vars[name] = r
			if len(results) == 1 {
				vars["result"] = r
			}
		}
	}
	if pkg == nil {
		if p, ok := u.P.ByPath[c.Pkg]; ok {
			pkg = p.Types
		}
	}
	return &SpecEnv{fr: fr, vars: vars, cur: cur, old: old, pkg: pkg, errs: &u.problems}
}

func retype(v *Val, t types.Type) *Val {
	if v == nil {
		return nil
	}
	n := *v
	n.T = t
	return &n
}

func splitResults(v *Val, n int) []*Val {
	if v == nil {
		return nil
	}
	if v.Tuple != nil {
		return v.Tuple
	}
	return []*Val{v}
}

// applyContract replaces a call by assert-requires / havoc-modifies / assume-ensures.
func (fr *Frame) applyContract(b *ssa.BasicBlock, idx int, ins ssa.Instruction, c *FuncContract, callee *ssa.Function, args []*Val, res ssa.Value, st *State, reach string) {
	u := fr.u
	u.usedContracts[c.Key] = true
	cname := c.Name
	n := fr.callCount[c.Key]
	fr.callCount[c.Key] = n + 1
	pre := st.clone()
	// requires
	envPre := fr.contractEnv(c, callee, args, nil, pre, pre)
	if !fr.dry {
		for k, rq := range c.Requires {
			f := envPre.eval(rq.Expr).S
			name := fmt.Sprintf("%s#call-requires:%s%s:%d:%s", u.Name, fr.prefix, cname, n+1, clauseID(rq, k))
			u.oblige(name, "call-requires", fmt.Sprintf("precondition of %s at call %d: %s", cname, n+1, rq.Text), implies(reach, f), rq)
			u.assert(implies(reach, f))
		}
	}
	// havoc modifies
	switch {
	case c.Pure || (c.HasMod && !c.ModAll && !c.ModAuto && len(c.Modifies) == 0):
	case (c.ModAuto || !c.HasMod) && callee != nil && callee.Blocks != nil && inModule(callee):
		ms := getModAnalysis(u.P, u.C).modSetOf(callee)
		u.note("frame of %s inferred from its static call graph (class-hierarchy analysis for interface calls; external code writes only what it is handed)", c.Key)
		fr.havocModSet(ms, st, c.Key, args...)
		fr.havocEscapedPlaces(ins.(ssa.CallInstruction).Common(), st)
	case c.ModAll || !c.HasMod || c.ModAuto:
		if !c.HasMod {
			u.note("contract of %s has no modifies clause: treated as modifies *", c.Key)
		}
		fr.havocAll(st, c.Key)
	default:
		for _, m := range c.Modifies {
			fr.havocLoc(envPre, m, st)
		}
	}
	// the callee may allocate: the watermark only grows
	if _, touched := st.comps["WM"]; !touched || st.comps["WM"] == pre.comps["WM"] {
		if fr.dry {
			fr.setComp(st, "WM", "Int", "x")
		} else {
			nw := u.S.fresh("WM@call", "Int")
			u.assert("(>= " + nw + " " + u.comp(pre, "WM", "Int") + ")")
			fr.setComp(st, "WM", "Int", nw)
		}
	}
	var results []*Val
	if res != nil {
		rv := fr.freshVal(res.Type(), fr.prefix+res.Name())
		fr.vals[res] = rv
		results = splitResults(rv, 0)
		if _, isTuple := res.Type().(*types.Tuple); !isTuple && rv.Tuple == nil {
			results = []*Val{rv}
		}
		if tup, ok := res.Type().(*types.Tuple); ok && tup.Len() == 0 {
			results = nil
		}
	}
	if fr.dry {
		return
	}
	for _, x := range results {
		fr.allocated(x, st)
	}
	envPost := fr.contractEnv(c, callee, args, results, st, pre)
	envPost.atCallSite = true
	for _, en := range append(append([]*Clause{}, c.Ensures...), c.Assumes...) {
		if mentionsInternalCalls(en.Expr) {
			continue // the clause talks about the callee's internal calls: nothing is assumed from it here
		}
		skip := false
		envPost.skip = &skip
		f := envPost.eval(en.Expr).S
		if skip {
			continue // the clause talks about the callee's internal calls: nothing is assumed from it here
		}
		u.assert(implies(reach, f))
	}
	for _, a := range c.Assumes {
		u.note("assumed (not proved) about %s: %s", shortKey(c.Key), a.Text)
	}
}

// mentionsInternalCalls: the expression uses res() / argOf() / dominatedBy(), which only mean something inside the
// function the contract belongs to.
func mentionsInternalCalls(x ast.Expr) bool {
	found := false
	ast.Inspect(x, func(n ast.Node) bool {
		if c, ok := n.(*ast.CallExpr); ok {
			if id, ok := c.Fun.(*ast.Ident); ok && (id.Name == "res" || id.Name == "argOf" || id.Name == "dominatedBy") {
				found = true
			}
		}
		return !found
	})
	return found
}

func clauseID(c *Clause, k int) string {
	if c.Label != "" {
		return c.Label
	}
	return fmt.Sprintf("%d", k+1)
}

// havocLoc forgets one location named by a modifies clause: p.f, p.f[] (contents of map/slice), *p, s[].
func (fr *Frame) havocLoc(env *SpecEnv, m *Clause, st *State) {
	u := fr.u
	text := strings.TrimSpace(m.Text)
	contents := false
	if strings.HasSuffix(text, "[]") {
		contents = true
		text = strings.TrimSuffix(text, "[]")
	}
	e, err := parseSpecExpr(text)
	if err != nil {
		u.problems = append(u.problems, fmt.Sprintf("bad modifies clause %q: %v", m.Text, err))
		return
	}
	if contents {
		v := env.eval(e)
		fr.havocContents(v, st)
		return
	}
	pl := env.placeExpr(e)
	if pl == nil {
		u.problems = append(u.problems, fmt.Sprintf("modifies clause %q is not a location", m.Text))
		return
	}
	if fr.dry {
		fr.store(st, pl, "x")
		return
	}
	nv := fr.freshVal(pl.typ(), fr.prefix+"mod")
	fr.store(st, pl, nv.S)
}

// havocContents forgets the contents of a map or of a slice's backing array.
func (fr *Frame) havocContents(v *Val, st *State) {
	u := fr.u
	switch t := types.Unalias(v.T).Underlying().(type) {
	case *types.Map:
		hn, hs, vn, vs := u.mapComps(t)
		ks := u.S.sortOf(t.Key())
		es := u.S.sortOf(t.Elem())
		if fr.dry {
			fr.setComp(st, hn, hs, "x")
			fr.setComp(st, vn, vs, "x")
			fr.setComp(st, "ML", "(Array Int Int)", "x")
			return
		}
		fr.setComp(st, hn, hs, sto(u.comp(st, hn, hs), v.S, u.S.fresh("modh", "(Array "+ks+" Bool)")))
		fr.setComp(st, vn, vs, sto(u.comp(st, vn, vs), v.S, u.S.fresh("modv", "(Array "+ks+" "+es+")")))
		nl := u.S.fresh("modl", "Int")
		u.assert("(>= " + nl + " 0)")
		fr.setComp(st, "ML", "(Array Int Int)", sto(u.comp(st, "ML", "(Array Int Int)"), v.S, nl))
	case *types.Slice:
		cn, cs := u.elemComp(t.Elem())
		if fr.dry {
			fr.setComp(st, cn, cs, "x")
			return
		}
		fr.setComp(st, cn, cs, sto(u.comp(st, cn, cs), app("sl_arr", v.S), u.S.fresh("mode", "(Array Int "+u.S.sortOf(t.Elem())+")")))
	case *types.Pointer:
		pl := fr.placeOf(v)
		if fr.dry {
			fr.store(st, pl, "x")
			return
		}
		nv := fr.freshVal(pl.typ(), fr.prefix+"mod")
		fr.store(st, pl, nv.S)
	default:
		u.problems = append(u.problems, fmt.Sprintf("modifies contents of unsupported type %s", v.T))
	}
}

// placeExpr evaluates an expression denoting a location (p.f, p.f.g, *p, s[i]).
func (e *SpecEnv) placeExpr(x ast.Expr) *Place {
	switch x := x.(type) {
	case *ast.ParenExpr:
		return e.placeExpr(x.X)
	case *ast.StarExpr:
		return e.fr.placeOf(e.eval(x.X))
	case *ast.SelectorExpr:
		// nested struct value field of a location, or field of a pointer
		var base *Place
		var st *types.Struct
		if inner := e.placeExprQuiet(x.X); inner != nil {
			if s, ok := inner.typ().Underlying().(*types.Struct); ok && isStructVal(inner.typ()) {
				base, st = inner, s
			}
		}
		if base == nil {
			v := e.eval(x.X)
			s, stT, isPtr := derefStruct(v.T)
			if s == nil || !isPtr {
				return nil
			}
			base, st = &Place{Base: e.fr.termOf(v), BaseT: stT}, s
		}
		for i := 0; i < st.NumFields(); i++ {
			if st.Field(i).Name() == x.Sel.Name {
				return base.extend(i)
			}
		}
		return nil
	case *ast.Ident:
		// an address-taken local: the cell go/ssa allocated for it
		for _, b := range e.fr.fn.Blocks {
			for _, ins := range b.Instrs {
				if a, ok := ins.(*ssa.Alloc); ok && a.Comment == x.Name {
					if v, ok := e.fr.vals[a]; ok {
						return e.fr.placeOf(v)
					}
				}
			}
		}
		return nil
	case *ast.IndexExpr:
		v := e.eval(x.X)
		i := e.eval(x.Index)
		if t, ok := types.Unalias(v.T).Underlying().(*types.Slice); ok {
			return &Place{Base: app("sl_arr", v.S), BaseT: t.Elem(), Elem: true, Idx: "(+ (sl_off " + v.S + ") " + i.S + ")"}
		}
	}
	return nil
}

// placeExprQuiet is placeExpr for sub-expressions that may legitimately not be locations.
func (e *SpecEnv) placeExprQuiet(x ast.Expr) *Place {
	switch x.(type) {
	case *ast.SelectorExpr, *ast.StarExpr, *ast.ParenExpr:
		var errs []string
		n := *e
		n.errs = &errs
		pl := n.placeExpr(x)
		if len(errs) > 0 {
			return nil
		}
		return pl
	}
	return nil
}

// ---- builtins ----

func (fr *Frame) builtin(b *ssa.BasicBlock, idx int, ins ssa.Instruction, bi *ssa.Builtin, cc *ssa.CallCommon, res ssa.Value, st *State, reach string) {
	u := fr.u
	var args []*Val
	for _, a := range cc.Args {
		args = append(args, fr.val(a))
	}
	def := func(term string) {
		if res != nil {
			fr.define(res, term)
		}
	}
	switch bi.Name() {
	case "len":
		switch u.S.sortOf(cc.Args[0].Type()) {
		case "Slice":
			def(app("sl_len", args[0].S))
		case "Str":
			def(app("strlen", args[0].S))
		case "Int":
			if _, ok := types.Unalias(cc.Args[0].Type()).Underlying().(*types.Map); ok {
				r := fr.define(res, ite(eq(args[0].S, "0"), "0", u.mapLen(st, args[0].S)))
				if !fr.dry {
					// a map cannot hold more entries than the address space has bytes
					u.assert("(and (>= " + r.S + " 0) (<= " + r.S + " 140737488355328))")
				}
			} else {
				fr.vals[res] = fr.freshVal(res.Type(), fr.prefix+res.Name())
			}
		default:
			if at, ok := types.Unalias(cc.Args[0].Type()).Underlying().(*types.Array); ok {
				def(fmt.Sprint(at.Len()))
			} else {
				fr.vals[res] = fr.freshVal(res.Type(), fr.prefix+res.Name())
			}
		}
	case "cap":
		if u.S.sortOf(cc.Args[0].Type()) == "Slice" {
			def(app("sl_cap", args[0].S))
		} else {
			fr.vals[res] = fr.freshVal(res.Type(), fr.prefix+res.Name())
		}
	case "append":
		fr.appendOp(cc, args, res, st, reach)
	case "copy":
		// copy(dst, src): dst contents forgotten, n = min(len)
		fr.havocContents(args[0], st)
		if res != nil {
			if u.S.sortOf(cc.Args[1].Type()) == "Slice" {
				def(ite("(<= (sl_len "+args[0].S+") (sl_len "+args[1].S+"))", "(sl_len "+args[0].S+")", "(sl_len "+args[1].S+")"))
			} else {
				def(ite("(<= (sl_len "+args[0].S+") (strlen "+args[1].S+"))", "(sl_len "+args[0].S+")", "(strlen "+args[1].S+")"))
			}
		}
		u.note("copy() forgets the destination contents")
	case "delete":
		mt := types.Unalias(cc.Args[0].Type()).Underlying().(*types.Map)
		fr.mapDelete(st, mt, args[0].S, fr.termOf(args[1]))
	case "min", "max":
		if u.S.sortOf(res.Type()) == "Int" {
			acc := args[0].S
			for _, a := range args[1:] {
				if bi.Name() == "min" {
					acc = ite("(<= "+acc+" "+a.S+")", acc, a.S)
				} else {
					acc = ite("(>= "+acc+" "+a.S+")", acc, a.S)
				}
			}
			def(acc)
		} else {
			fr.vals[res] = fr.freshVal(res.Type(), fr.prefix+res.Name())
		}
	case "clear":
		fr.havocContents(args[0], st)
		if mt, ok := types.Unalias(cc.Args[0].Type()).Underlying().(*types.Map); ok && !fr.dry {
			hn, hs, _, _ := u.mapComps(mt)
			ks := u.S.sortOf(mt.Key())
			fr.setComp(st, hn, hs, sto(u.comp(st, hn, hs), args[0].S, "((as const (Array "+ks+" Bool)) false)"))
			fr.setComp(st, "ML", "(Array Int Int)", sto(u.comp(st, "ML", "(Array Int Int)"), args[0].S, "0"))
		}
	case "print", "println", "close", "ssa:wrapnilchk":
		if res != nil {
			if bi.Name() == "ssa:wrapnilchk" {
				fr.vals[res] = args[0]
			} else {
				fr.vals[res] = fr.freshVal(res.Type(), fr.prefix+res.Name())
			}
		}
	case "panic":
		fr.panicObl(b, idx, "explicit", "false", reach, ins)
	default:
		fr.unsupported(ins, "builtin "+bi.Name())
		if res != nil {
			fr.vals[res] = fr.freshVal(res.Type(), fr.prefix+res.Name())
		}
	}
}

// appendOp models append(s, xs...) as a fresh backing array holding old ++ new.
func (fr *Frame) appendOp(cc *ssa.CallCommon, args []*Val, res ssa.Value, st *State, reach string) {
	u := fr.u
	s := args[0]
	st0 := st.clone()
	et := types.Unalias(cc.Args[0].Type()).Underlying().(*types.Slice).Elem()
	cn, cs := u.elemComp(et)
	es := u.S.sortOf(et)
	if fr.dry {
		fr.alloc(st)
		fr.setComp(st, cn, cs, "x")
		fr.vals[res] = fr.freshVal(res.Type(), fr.prefix+res.Name())
		return
	}
	u.note("append always yields a fresh backing array (no function under contract keeps two live views across an append)")
	r := fr.alloc(st)
	heap0 := u.comp(st0, cn, cs)
	newInner := u.S.fresh(fr.prefix+"app", "(Array Int "+es+")")
	oldInner := sel(heap0, app("sl_arr", s.S))
	oldLen := app("sl_len", s.S)
	// old contents copied
	u.assert(fmt.Sprintf("(forall ((q!i Int)) (! (=> (and (<= 0 q!i) (< q!i %s)) (= (select %s q!i) (select %s (+ (sl_off %s) q!i)))) :pattern ((select %s q!i))))", oldLen, newInner, oldInner, s.S, newInner))
	var addLen string
	if u.S.sortOf(cc.Args[1].Type()) == "Slice" {
		x := args[1]
		// variadic slice: may come from "new [n]T; slice" (explicit elements) or s2...
		xInner := sel(heap0, app("sl_arr", x.S))
		addLen = app("sl_len", x.S)
		u.assert(fmt.Sprintf("(forall ((q!i Int)) (! (=> (and (<= 0 q!i) (< q!i %s)) (= (select %s (+ %s q!i)) (select %s (+ (sl_off %s) q!i)))) :pattern ((select %s (+ %s q!i)))))", addLen, newInner, oldLen, xInner, x.S, newInner, oldLen))
		// direct facts for small constant-length argument lists
		if al, ok := cc.Args[1].(*ssa.Slice); ok {
			if a, ok := al.X.(*ssa.Alloc); ok {
				if at, ok := a.Type().Underlying().(*types.Pointer).Elem().Underlying().(*types.Array); ok && at.Len() <= 8 {
					for i := int64(0); i < at.Len(); i++ {
						u.assert(fmt.Sprintf("(= (select %s (+ %s %d)) (select %s (+ (sl_off %s) %d)))", newInner, oldLen, i, xInner, x.S, i))
					}
				}
			}
		}
	} else {
		// append([]byte, string...)
		addLen = app("strlen", args[1].S)
	}
	fr.setComp(st, cn, cs, sto(u.comp(st, cn, cs), r, newInner))
	out := fr.declVal(res)
	u.assert(fmt.Sprintf("(and (= (sl_arr %s) %s) (= (sl_off %s) 0) (= (sl_len %s) (+ %s %s)))", out.S, r, out.S, out.S, oldLen, addLen))
	// appending within capacity keeps the capacity
	u.assert(fmt.Sprintf("(=> (<= (+ %s %s) (sl_cap %s)) (= (sl_cap %s) (sl_cap %s)))", oldLen, addLen, s.S, out.S, s.S))
}

// ---- loops ----

func (fr *Frame) loopHeader(b *ssa.BasicBlock, li *loopInfo, entryReach string, entry *State, edgeOfPred func(p *ssa.BasicBlock, nth int) string) {
	u := fr.u
	var spec *LoopSpec
	if fr.fc != nil {
		spec = fr.fc.Loops[li.ordinal]
	}
	li.spec = spec
	// collect phis
	var phis []*ssa.Phi
	for _, ins := range b.Instrs {
		if p, ok := ins.(*ssa.Phi); ok {
			phis = append(phis, p)
		} else {
			break
		}
	}
	// entry values / latch values per phi
	occ := map[*ssa.BasicBlock]int{}
	type inEdge struct {
		pred *ssa.BasicBlock
		pos  int // index in b.Preds
		back bool
	}
	var ins []inEdge
	for i, p := range b.Preds {
		ins = append(ins, inEdge{p, i, isBackEdge(p, b)})
		occ[p]++
	}
	if fr.dry {
		for _, p := range phis {
			fr.vals[p] = fr.freshVal(p.Type(), fr.prefix+p.Name())
		}
		fr.exitSt[b.Index] = entry
		return
	}
	// 1. invariants hold on entry: evaluate with phis bound to their entry values
	entryVals := map[*ssa.Phi]*Val{}
	{
		occ2 := map[*ssa.BasicBlock]int{}
		var conds []string
		var idxs []int
		for _, e := range ins {
			c := edgeOfPred(e.pred, occ2[e.pred])
			occ2[e.pred]++
			if e.back {
				continue
			}
			conds = append(conds, c)
			idxs = append(idxs, e.pos)
		}
		for _, p := range phis {
			var vs []*Val
			for _, k := range idxs {
				vs = append(vs, fr.val(p.Edges[k]))
			}
			if len(vs) == 1 {
				entryVals[p] = vs[0]
			} else {
				tmp := fr.freshVal(p.Type(), fr.prefix+p.Name()+"@entry")
				fr.defineIte(tmp, conds, vs)
				entryVals[p] = tmp
			}
		}
	}
	invs := fr.loopInvariants(b, li, spec)
	// automatic frame invariant: inside the loop nothing outside the function's modifies clause changes
	if fr.allow != nil && fr.top {
		var ms []string
		for bi := range li.blocks {
			for c := range fr.written[bi] {
				ms = append(ms, c)
			}
		}
		sort.Strings(ms)
		seen := map[string]bool{}
		for _, c := range ms {
			if seen[c] || c == "WM" || c == "*" || strings.HasPrefix(c, "VIS_") {
				continue
			}
			seen[c] = true
			comp := c
			so := u.compSort[c]
			ref := u.comp(entry, comp, so)
			res := &invariant{text: "frame of " + comp + " (automatic)", auto: func(env *SpecEnv) string {
				return frameFormula(comp, u.comp(env.cur, comp, so), ref, fr.allow[comp])
			}}
			invs = append(invs, res)
		}
	}
	for _, inv := range invs {
		if inv.clause != nil && inv.clause.Assumed {
			env := fr.loopEnv(b, li, entry, entryVals)
			u.note("assumed at the head of loop " + fmt.Sprint(li.ordinal) + " (definition, not proved): " + inv.text)
			u.assert(implies(entryReach, inv.eval(env)))
		}
	}
	for k, inv := range invs {
		if inv.clause != nil && inv.clause.Assumed {
			continue
		}
		env := fr.loopEnv(b, li, entry, entryVals)
		f := inv.eval(env)
		name := fmt.Sprintf("%s#loop-entry:%d:%s", u.Name, li.ordinal, inv.id(k))
		u.oblige(name, "loop-entry", fmt.Sprintf("loop %d invariant holds on entry: %s", li.ordinal, inv.text), implies(entryReach, f), inv.clause)
	}
	// 2. havoc: phis fresh, modified components fresh
	hst := entry.clone()
	mod := map[string]bool{}
	for bi := range li.blocks {
		for c := range fr.written[bi] {
			mod[c] = true
		}
	}
	if mod["*"] {
		fr.havocAll(hst, "loop")
	} else {
		var ms []string
		for c := range mod {
			ms = append(ms, c)
		}
		sort.Strings(ms)
		for _, c := range ms {
			so := u.compSort[c]
			if c == "WM" {
				n := u.S.fresh("WM@loop", "Int")
				u.assert("(>= " + n + " " + u.comp(entry, "WM", "Int") + ")")
				hst.comps[c] = n
				continue
			}
			hst.comps[c] = u.S.fresh(fmt.Sprintf("%s%s@loop%d", fr.prefix, c, li.ordinal), so)
		}
	}
	for _, p := range phis {
		v := fr.declVal(p) // unconstrained apart from its type range
		fr.allocated(v, hst)
	}
	// 3. assume invariants in the arbitrary iteration
	for _, inv := range invs {
		env := fr.loopEnv(b, li, hst, nil)
		env.old = fr.entrySt
		u.assert(inv.eval(env))
	}
	fr.exitSt[b.Index] = hst
	li.invs = invs
	li.entry = entry
}

// checkLatches is called after all blocks ran: invariants are preserved along every back edge.
func (fr *Frame) checkLatches() {
	u := fr.u
	if fr.dry {
		return
	}
	var hs []int
	for h := range fr.loops {
		hs = append(hs, h)
	}
	sort.Ints(hs)
	for _, h := range hs {
		li := fr.loops[h]
		b := li.header
		var phis []*ssa.Phi
		for _, ins := range b.Instrs {
			if p, ok := ins.(*ssa.Phi); ok {
				phis = append(phis, p)
			} else {
				break
			}
		}
		occ := map[*ssa.BasicBlock]int{}
		for pi, p := range b.Preds {
			nth := occ[p]
			occ[p]++
			if !isBackEdge(p, b) {
				continue
			}
			// find the nth edge p->b
			cnt := 0
			cond := "false"
			for k, s := range p.Succs {
				if s == b {
					if cnt == nth {
						if c, ok := fr.edge[[2]int{p.Index, k}]; ok {
							cond = c
						}
					}
					cnt++
				}
			}
			if cond == "false" {
				continue
			}
			st := fr.exitSt[p.Index]
			if st == nil {
				continue
			}
			latchVals := map[*ssa.Phi]*Val{}
			for _, ph := range phis {
				latchVals[ph] = fr.val(ph.Edges[pi])
			}
			if top := fr.fcTop(); top != nil && fr.parent == nil {
				for _, cs := range top.Calls {
					if cs.Callee != "loopback" || cs.Ordinal != li.ordinal {
						continue
					}
					cs.Hit = true
					// names as they stand at the end of the iteration (just before the back edge)
					env := fr.localEnv(p, len(p.Instrs), st)
					hdr := b
					hst := fr.exitSt[b.Index]
					env.prevState = hst
					env.prevVal = func(name string) *Val {
						for _, ins := range hdr.Instrs {
							if ph, ok := ins.(*ssa.Phi); ok && ph.Comment == name {
								return fr.val(ph)
							}
						}
						return fr.resolveLocal(name, hdr, hst)
					}
					for k, cl := range cs.Before {
						f := env.eval(cl.Expr).S
						oname := fmt.Sprintf("%s#at:loopback:%d:%s", u.Name, li.ordinal, clauseID(cl, k))
						if len(li.latches) > 1 {
							oname += fmt.Sprintf("@%d", p.Index)
						}
						u.oblige(oname, "assert", fmt.Sprintf("at the end of every iteration of loop %d: %s", li.ordinal, cl.Text), implies(cond, f), cl)
					}
				}
			}
			for k, inv := range li.invs {
				if inv.clause != nil && inv.clause.Assumed {
					continue
				}
				env := fr.loopEnv(b, li, st, latchVals)
				f := inv.eval(env)
				name := fmt.Sprintf("%s#loop-preserve:%d:%s", u.Name, li.ordinal, inv.id(k))
				if len(li.latches) > 1 {
					name += fmt.Sprintf("@%d", p.Index)
				}
				u.oblige(name, "loop-preserve", fmt.Sprintf("loop %d invariant preserved: %s", li.ordinal, inv.text), implies(cond, f), inv.clause)
			}
			if li.spec != nil && li.spec.Decreases != nil {
				envH := fr.loopEnv(b, li, fr.exitSt[b.Index], nil)
				envL := fr.loopEnv(b, li, st, latchVals)
				before := envH.eval(li.spec.Decreases.Expr).S
				after := envL.eval(li.spec.Decreases.Expr).S
				name := fmt.Sprintf("%s#decreases:%d", u.Name, li.ordinal)
				u.oblige(name, "decreases", fmt.Sprintf("loop %d measure decreases and is bounded: %s", li.ordinal, li.spec.Decreases.Text), implies(cond, fmt.Sprintf("(and (< %s %s) (>= %s 0))", after, before, before)), li.spec.Decreases)
			}
		}
	}
}

type invariant struct {
	text   string
	clause *Clause
	auto   func(env *SpecEnv) string
}

func (iv *invariant) eval(env *SpecEnv) string {
	if iv.auto != nil {
		return iv.auto(env)
	}
	return env.eval(iv.clause.Expr).S
}

func (iv *invariant) id(k int) string {
	if iv.clause != nil {
		return clauseID(iv.clause, k)
	}
	return "auto" + fmt.Sprint(k+1)
}

// loopInvariants = automatic range-loop invariants + the contract's.
func (fr *Frame) loopInvariants(b *ssa.BasicBlock, li *loopInfo, spec *LoopSpec) []*invariant {
	var res []*invariant
	for _, ins := range b.Instrs {
		p, ok := ins.(*ssa.Phi)
		if !ok {
			break
		}
		if p.Comment == "rangeindex" {
			// t = phi[-1, t+1]; next: t+1 < len
			lenv := fr.rangeLen(b, p)
			if lenv != nil {
				ph := p
				res = append(res, &invariant{text: "-1 <= rangeindex < len (automatic)", auto: func(env *SpecEnv) string {
					v := env.vars["$phi:"+ph.Name()]
					l := fr.val(lenv)
					return fmt.Sprintf("(and (<= (- 1) %s) (or (= %s (- 1)) (< %s %s)))", v.S, v.S, v.S, l.S)
				}})
			}
		}
	}
	// a counter that starts at a non-negative constant and only goes up by a positive constant stays non-negative
	for _, ins := range b.Instrs {
		p, ok := ins.(*ssa.Phi)
		if !ok {
			break
		}
		if p.Comment == "rangeindex" || len(p.Edges) != 2 || basicKind(p.Type()) != "int" {
			continue
		}
		up, start := false, false
		for _, e := range p.Edges {
			if c, ok := e.(*ssa.Const); ok && c.Value != nil {
				if v, exact := constant.Int64Val(constant.ToInt(c.Value)); exact && v >= 0 {
					start = true
				}
			}
			if bo, ok := e.(*ssa.BinOp); ok && bo.Op == token.ADD && bo.X == ssa.Value(p) {
				if c, ok := bo.Y.(*ssa.Const); ok && c.Value != nil {
					if v, exact := constant.Int64Val(constant.ToInt(c.Value)); exact && v > 0 {
						up = true
					}
				}
			}
		}
		if up && start {
			pp := p
			res = append(res, &invariant{text: "the counter " + p.Comment + " of the loop is non-negative (automatic)", auto: func(env *SpecEnv) string {
				v := env.vars["$phi:"+pp.Name()]
				if v == nil {
					return "true"
				}
				return "(<= 0 " + v.S + ")"
			}})
		}
	}
	if spec != nil {
		for _, c := range spec.Invariants {
			res = append(res, &invariant{text: c.Text, clause: c})
		}
	}
	return res
}

// rangeLen finds the length value compared against in a rangeindex loop header.
func (fr *Frame) rangeLen(b *ssa.BasicBlock, p *ssa.Phi) ssa.Value {
	for _, ins := range b.Instrs {
		if bo, ok := ins.(*ssa.BinOp); ok && bo.Op.String() == "<" {
			if add, ok := bo.X.(*ssa.BinOp); ok && add.X == ssa.Value(p) {
				return bo.Y
			}
		}
	}
	return nil
}

// loopEnv: names visible to an invariant at the header: parameters, header phis by source name,
// "iter" for range loops, other locals through debug references, named results.
func (fr *Frame) loopEnv(b *ssa.BasicBlock, li *loopInfo, st *State, phiVals map[*ssa.Phi]*Val) *SpecEnv {
	u := fr.u
	vars := map[string]*Val{}
	forced := map[string]bool{"iter": true}
	for _, p := range fr.fn.Params {
		vars[p.Name()] = fr.val(p)
	}
	for fv, v := range fr.freeVars {
		vars[fv.Name()] = v
	}
	for _, ins := range b.Instrs {
		p, ok := ins.(*ssa.Phi)
		if !ok {
			break
		}
		var v *Val
		if phiVals != nil {
			v = phiVals[p]
		} else {
			v = fr.val(p)
		}
		vars["$phi:"+p.Name()] = v
		if p.Comment == "rangeindex" || p.Comment == "rangeint.iter" {
			vars["iter"] = &Val{T: mathInt, S: "(+ " + v.S + " 1)", Math: true}
			if p.Comment == "rangeint.iter" {
				vars["iter"] = &Val{T: mathInt, S: v.S, Math: true}
				// "for i := range n": the counter is also known by its source name
				for _, in2 := range b.Instrs {
					if d, ok := in2.(*ssa.DebugRef); ok && d.X == ssa.Value(p) {
						if id, ok := d.Expr.(*ast.Ident); ok {
							vars[id.Name] = v
							forced[id.Name] = true
						}
					}
				}
			}
			continue
		}
		if p.Comment != "" {
			vars[p.Comment] = v
			forced[p.Comment] = true
		}
	}
	// iteration counters of enclosing range loops: iter<ordinal>
	for _, other := range fr.loops {
		if other == li || !other.blocks[b.Index] {
			continue
		}
		for _, ins := range other.header.Instrs {
			p, ok := ins.(*ssa.Phi)
			if !ok {
				break
			}
			if p.Comment == "rangeindex" {
				if v, defined := fr.vals[p]; defined {
					n := fmt.Sprintf("iter%d", other.ordinal)
					vars[n] = &Val{T: mathInt, S: "(+ " + v.S + " 1)", Math: true}
					forced[n] = true
				}
			}
		}
	}
	var pkg *types.Package
	if fr.fn.Pkg != nil {
		pkg = fr.fn.Pkg.Pkg
	} else if fr.fn.Origin() != nil && fr.fn.Origin().Pkg != nil {
		pkg = fr.fn.Origin().Pkg.Pkg
	}
	env := &SpecEnv{fr: fr, vars: vars, cur: st, old: fr.entrySt, pkg: pkg, errs: &u.problems}
	env.oldVars = map[string]*Val{}
	for _, p := range fr.fn.Params {
		env.oldVars[p.Name()] = fr.val(p)
	}
	for _, fv := range fr.fn.FreeVars {
		// a closure's captured variables, by the names its contract uses (see contractEnv)
		if _, isPtr := fv.Type().Underlying().(*types.Pointer); isPtr && fr.freeVars == nil {
			if _, ok := env.oldVars[fv.Name()]; !ok && fr.entrySt != nil {
				env.oldVars[fv.Name()] = fr.load(fr.entrySt, fr.placeOf(fr.val(fv)))
			}
			continue
		}
		if _, ok := env.oldVars[fv.Name()]; !ok {
			env.oldVars[fv.Name()] = fr.val(fv)
		}
	}
	env.forced = forced
	env.resolve = func(name string) *Val { return fr.resolveLocal(name, b, st) }
	// visited(k): the ghost set of keys already produced by the map range this loop iterates
	for bi := range li.blocks {
		for _, ins := range fr.fn.Blocks[bi].Instrs {
			if nx, ok := ins.(*ssa.Next); ok && !nx.IsString {
				if rng, ok := nx.Iter.(*ssa.Range); ok {
					if mt, ok := types.Unalias(rng.X.Type()).Underlying().(*types.Map); ok && rng.Block() != nil && !li.blocks[rng.Block().Index] {
						vis := fr.visitedSet(rng, mt)
						so := "(Array " + u.S.sortOf(mt.Key()) + " Bool)"
						env.visited = func(k string) string { return sel(u.comp(env.cur, vis, so), k) }
					}
				}
			}
		}
	}
	return env
}

// resolveLocal finds the SSA value bound to a source-level local at (the start of) block at.
func (fr *Frame) resolveLocal(name string, at *ssa.BasicBlock, st *State) *Val {
	return fr.resolveLocalAt(name, at, -1, st)
}

// resolveLocalAt resolves a source-level local just before instruction atIdx of block at (-1: block start).
func (fr *Frame) resolveLocalAt(name string, at *ssa.BasicBlock, atIdx int, st *State) *Val {
	// address-taken locals: Alloc with that comment
	for _, b := range fr.fn.Blocks {
		for _, ins := range b.Instrs {
			if a, ok := ins.(*ssa.Alloc); ok && a.Comment == name {
				if v, ok := fr.vals[a]; ok && (b == at || b.Dominates(at)) {
					return fr.load(st, fr.placeOf(v))
				}
			}
		}
	}
	// captured-by-reference variables of a closure: the free variable is the address of the variable
	for i := range fr.names[name] {
		nb := &fr.names[name][i]
		if fv, ok := nb.val.(*ssa.FreeVar); ok && nb.isAddr {
			return fr.load(st, fr.placeOf(fr.val(fv)))
		}
	}
	for _, fv := range fr.fn.FreeVars {
		if fv.Name() == name {
			if _, isPtr := fv.Type().Underlying().(*types.Pointer); !isPtr {
				return fr.val(fv)
			}
		}
	}
	// Reaching definition: the binding point (debug reference for an assignment / use, or a phi carrying the
	// variable's name) that most closely dominates the program point.
	type cand struct {
		v   ssa.Value
		blk *ssa.BasicBlock
		idx int
	}
	var cands []cand
	addAt := func(v ssa.Value, blk *ssa.BasicBlock, idx int) {
		if blk == at {
			if idx >= atIdx {
				return
			}
		} else if !blk.Dominates(at) {
			return
		}
		cands = append(cands, cand{v, blk, idx})
	}
	for i := range fr.names[name] {
		nb := &fr.names[name][i]
		if !nb.isAddr {
			addAt(nb.val, nb.block, nb.idx)
		}
	}
	for _, b := range fr.fn.Blocks {
		for k, ins := range b.Instrs {
			if p, ok := ins.(*ssa.Phi); ok && p.Comment == name {
				if b == at {
					cands = append(cands, cand{p, b, k - 1000}) // phis of the block itself are defined at its start
				} else {
					addAt(p, b, k)
				}
			}
		}
	}
	for _, p := range fr.fn.Params {
		if p.Name() == name {
			cands = append(cands, cand{p, fr.fn.Blocks[0], -2000})
		}
	}
	var best *cand
	for i := range cands {
		c := &cands[i]
		if best == nil || (best.blk != c.blk && best.blk.Dominates(c.blk)) || (best.blk == c.blk && c.idx > best.idx) {
			best = c
		}
	}
	if best != nil {
		if _, defined := fr.vals[best.v]; defined {
			return fr.val(best.v)
		}
		if _, isConst := best.v.(*ssa.Const); isConst {
			return fr.val(best.v)
		}
	}
	return nil
}

// callSiteSpecs evaluates "at <callee> <n> / before <expr>" blocks of the contract and records call results
// for res(<callee>, <n>).
func (fr *Frame) callSiteSpecs(b *ssa.BasicBlock, idx int, ins ssa.Instruction, cc *ssa.CallCommon, res ssa.Value, st *State, reach string) {
	name := ""
	if cc == nil {
		// pseudo sites: "select", "send", "return"
		switch ins.(type) {
		case *ssa.Select:
			name = "chanselect"
		case *ssa.Send:
			name = "chansend"
		case *ssa.Return:
			name = "return"
		default:
			return
		}
	} else if cc.IsInvoke() {
		name = cc.Method.Name()
	} else if c := cc.StaticCallee(); c != nil {
		name = siteName(ins)
	} else if name = siteName(ins); name == "" {
		return
	}
	n := fr.siteOrdinal(name, ins)
	if fr.siteReach == nil {
		fr.siteReach = map[string]string{}
	}
	if prevReach, ok := fr.siteReach[fmt.Sprintf("%s#%d", name, n)]; ok && prevReach != reach {
		fr.siteReach[fmt.Sprintf("%s#%d", name, n)] = or(prevReach, reach) // a site inside a loop: any execution counts
	} else {
		fr.siteReach[fmt.Sprintf("%s#%d", name, n)] = reach
	}
	if fr.callResults == nil {
		fr.callResults = map[string]ssa.Value{}
	}
	if res != nil {
		fr.callResults[fmt.Sprintf("%s#%d", name, n)] = res
	}
	if cc != nil {
		if fr.callArgVals == nil {
			fr.callArgVals = map[string][]*Val{}
		}
		var avs []*Val
		for _, a := range cc.Args {
			avs = append(avs, fr.val(a))
		}
		fr.callArgVals[fmt.Sprintf("%s#%d", name, n)] = avs
		if cc.IsInvoke() {
			// the receiver of an interface call is addressed as recv() / recvOf(callee, n)
			fr.callArgVals[fmt.Sprintf("%s#%d#recv", name, n)] = []*Val{fr.val(cc.Value)}
		}
	} else if snd, ok := ins.(*ssa.Send); ok {
		// a send is addressed as chansend(channel, value)
		if fr.callArgVals == nil {
			fr.callArgVals = map[string][]*Val{}
		}
		fr.callArgVals[fmt.Sprintf("%s#%d", name, n)] = []*Val{fr.val(snd.Chan), fr.val(snd.X)}
	}
	top := fr.fcTop()
	if top == nil || fr.dry || fr.parent != nil {
		return
	}
	u := fr.u
	if os.Getenv("VERIF_SITES") != "" {
		pos := u.P.Fset.Position(ins.Pos())
		fmt.Fprintf(os.Stderr, "site %s %d at %s:%d\n", name, n, shortFile(pos.Filename), pos.Line)
	}
	for _, cs := range top.Calls {
		if cs.Callee != name || (cs.Ordinal != n && cs.Ordinal != 0) {
			continue
		}
		cs.Hit = true
		env := fr.localEnv(b, idx, st)
		if cc != nil {
			for _, a := range cc.Args {
				env.callArgs = append(env.callArgs, fr.val(a))
			}
			if cc.IsInvoke() {
				env.callRecv = fr.val(cc.Value)
			}
		} else if r, ok := ins.(*ssa.Return); ok {
			for _, a := range r.Results {
				env.callArgs = append(env.callArgs, fr.val(a))
			}
		} else if snd, ok := ins.(*ssa.Send); ok {
			env.callArgs = []*Val{fr.val(snd.Chan), fr.val(snd.X)}
		}
		if len(cs.Assume) > 0 && cc != nil {
			// ... and once more right after the call, when its result can be named
			fr.pendingAfter = append(fr.pendingAfter, ins)
		}
		for _, cl := range cs.Assume {
			// ghost definition assumed just before this site (listed as an assumption)
			u.assert(implies(reach, env.eval(cl.Expr).S))
			u.note("ghost definition assumed in %s before %s %d: %s", fr.fn.Name(), name, n, cl.Text)
		}
		for k, cl := range cs.Before {
			f := env.eval(cl.Expr).S
			oname := fmt.Sprintf("%s#at:%s:%d:%s", u.Name, name, n, clauseID(cl, k))
			if cs.Ordinal == 0 {
				oname = fmt.Sprintf("%s#at:%s:all:%s@%d", u.Name, name, clauseID(cl, k), n)
			}
			u.oblige(oname, "assert", fmt.Sprintf("at call %d of %s: %s", n, name, cl.Text), implies(reach, f), cl)
			u.assert(implies(reach, f))
		}
	}
}

// localEnv: names visible just before instruction idx of block b.
func (fr *Frame) localEnv(b *ssa.BasicBlock, idx int, st *State) *SpecEnv {
	u := fr.u
	vars := map[string]*Val{}
	for _, p := range fr.fn.Params {
		vars[p.Name()] = fr.val(p)
	}
	var pkg *types.Package
	if fr.fn.Pkg != nil {
		pkg = fr.fn.Pkg.Pkg
	}
	env := &SpecEnv{fr: fr, vars: vars, cur: st, old: fr.entrySt, pkg: pkg, errs: &u.problems}
	env.oldVars = map[string]*Val{}
	for _, p := range fr.fn.Params {
		env.oldVars[p.Name()] = fr.val(p)
	}
	for _, fv := range fr.fn.FreeVars {
		// a closure's captured variables, by the names its contract uses (see contractEnv)
		if _, isPtr := fv.Type().Underlying().(*types.Pointer); isPtr && fr.freeVars == nil {
			if _, ok := env.oldVars[fv.Name()]; !ok && fr.entrySt != nil {
				env.oldVars[fv.Name()] = fr.load(fr.entrySt, fr.placeOf(fr.val(fv)))
			}
			continue
		}
		if _, ok := env.oldVars[fv.Name()]; !ok {
			env.oldVars[fv.Name()] = fr.val(fv)
		}
	}
	env.resolve = func(name string) *Val { return fr.resolveLocalAt(name, b, idx, st) }
	env.siteDominated = func(callee string, n int) bool {
		fr.siteOrdinal(callee, nil)
		for in, ord := range fr.siteOrd {
			if ord != n || siteName(in) != callee {
				continue
			}
			cb := in.Block()
			if cb == b {
				for k, x := range b.Instrs {
					if x == in {
						return k < idx
					}
				}
			}
			return cb.Dominates(b)
		}
		return false
	}
	return env
}

// siteName is the name under which a call / select / send / return instruction can be addressed by "at".
func siteName(ins ssa.Instruction) string {
	switch x := ins.(type) {
	case *ssa.Select:
		return "chanselect"
	case *ssa.Send:
		return "chansend"
	case *ssa.Return:
		return "return"
	case ssa.CallInstruction:
		cc := x.Common()
		if bi, ok := cc.Value.(*ssa.Builtin); ok {
			if bi.Name() == "close" {
				return "close"
			}
			return ""
		}
		if cc.IsInvoke() {
			return cc.Method.Name()
		}
		if c := cc.StaticCallee(); c != nil {
			n := c.Name()
			if i := strings.Index(n, "["); i > 0 {
				n = n[:i] // instantiated generic: address it by its plain name
			}
			return n
		}
		return dynSiteName(cc.Value)
	}
	return ""
}

// dynSiteName names a call of a function value by the field it was read from (p.progress()), the only
// dynamic calls contracts address.
func dynSiteName(v ssa.Value) string {
	if u, ok := v.(*ssa.UnOp); ok && u.Op == token.MUL {
		if fa, ok := u.X.(*ssa.FieldAddr); ok {
			if st, _, ok := derefStruct(fa.X.Type()); ok {
				return st.Field(fa.Field).Name()
			}
		}
	}
	if f, ok := v.(*ssa.Field); ok {
		if st, ok := f.X.Type().Underlying().(*types.Struct); ok {
			return st.Field(f.Field).Name()
		}
	}
	return ""
}

// siteOrdinal numbers the sites of one name in source order (1-based), independent of block layout.
func (fr *Frame) siteOrdinal(name string, ins ssa.Instruction) int {
	if fr.siteOrd == nil {
		fr.siteOrd = map[ssa.Instruction]int{}
		byName := map[string][]ssa.Instruction{}
		for _, b := range fr.fn.Blocks {
			for _, in := range b.Instrs {
				if n := siteName(in); n != "" && in.Pos().IsValid() {
					byName[n] = append(byName[n], in)
				}
			}
		}
		for _, list := range byName {
			sort.SliceStable(list, func(i, j int) bool { return list[i].Pos() < list[j].Pos() })
			for i, in := range list {
				fr.siteOrd[in] = i + 1
			}
		}
	}
	return fr.siteOrd[ins]
}

// afterCall: ghost definitions ("at <callee> n / assume <expr>") take effect right after the call.
func (fr *Frame) afterCall(b *ssa.BasicBlock, idx int, ins ssa.Instruction, st *State, reach string) {
	top := fr.fcTop()
	if top == nil || fr.dry || fr.parent != nil || len(top.Calls) == 0 {
		return
	}
	name := siteName(ins)
	if name == "" {
		return
	}
	n := fr.siteOrdinal(name, ins)
	for _, cs := range top.Calls {
		if cs.Callee != name || cs.Ordinal != n || len(cs.Assume) == 0 {
			continue
		}
		cs.Hit = true
		env := fr.localEnv(b, idx, st)
		env.callArgs = fr.callArgVals[fmt.Sprintf("%s#%d", name, n)]
		for _, cl := range cs.Assume {
			fr.u.assert(implies(reach, env.eval(cl.Expr).S))
			fr.u.note("ghost definition assumed in %s after %s: %s", fr.fn.Name(), name, cl.Text)
		}
	}
}
