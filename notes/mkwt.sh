#!/bin/bash
# usage: mkwt.sh <property id> [suffix] — scratch worktree of /repo for a seeding sub-agent, contract files removed
pid=$(echo $1 | tr A-Z a-z); wt=/tmp/wt-$pid$2
git -C /repo worktree add -q --detach $wt HEAD || exit 1
find $wt -name zz_verif_contracts.go -delete
echo $wt
