package certstore

import (
	"context"
	"errors"
	"fmt"
	"testing"

	"github.com/filecoin-project/go-f3/gpbft"
	"github.com/ipfs/go-datastore"
	ds_sync "github.com/ipfs/go-datastore/sync"
)

type crashDS struct {
	datastore.Datastore
	budget int // number of mutating operations allowed before the "crash"
}

var errCrash = errors.New("crash")

func (c *crashDS) Put(ctx context.Context, k datastore.Key, v []byte) error {
	if c.budget <= 0 {
		return errCrash
	}
	c.budget--
	return c.Datastore.Put(ctx, k, v)
}
func (c *crashDS) Delete(ctx context.Context, k datastore.Key) error {
	if c.budget <= 0 {
		return errCrash
	}
	c.budget--
	return c.Datastore.Delete(ctx, k)
}

// Replay harness for certstore.open: a wipe (DeleteAll) interrupted after n datastore operations must be
// completed on reopen: the reopened datastore must look empty (ErrNotInitialized), never half-deleted.
func TestVerifReplay(t *testing.T) {
	ctx := context.Background()
	pt, ptCid := testPowerTable(10)
	supp := gpbft.SupplementalData{PowerTable: ptCid}
	bad := 0
	for budget := 1; budget <= 6; budget++ {
		inner := ds_sync.MutexWrap(datastore.NewMapDatastore())
		cs, err := CreateStore(ctx, inner, 1, pt)
		if err != nil {
			t.Fatal(err)
		}
		for i := uint64(1); i <= 5; i++ {
			if err := cs.Put(ctx, makeCert(i, supp)); err != nil {
				t.Fatal(err)
			}
		}
		cs2, err := OpenStore(ctx, &crashDS{Datastore: inner, budget: budget})
		if err != nil {
			t.Fatal(err)
		}
		derr := cs2.DeleteAll(ctx)
		if derr == nil {
			continue // the wipe completed within the budget
		}
		_, oerr := OpenStore(ctx, inner)
		if !errors.Is(oerr, ErrNotInitialized) {
			bad++
			fmt.Printf("crash after %d datastore operations of the wipe: reopen gives %v (want: not initialized, i.e. wipe completed)\n", budget, oerr)
		}
	}
	if bad > 0 {
		fmt.Printf("REPLAY-CONFIRMED an interrupted wipe is not completed on reopen at %d crash points\n", bad)
	} else {
		fmt.Println("REPLAY-NOT-REPRODUCED")
	}
}
