#!/bin/bash
# usage: mkpatch.sh <out.patch> <file> <sed-expr>  — creates a -p1 patch of a sed edit against /repo
set -e
out=$1; f=$2; e=$3
tmp=$(mktemp -d /tmp/govc-mkp-XXXX); mkdir -p $tmp/a/$(dirname $f) $tmp/b/$(dirname $f)
cp /repo/$f $tmp/a/$f; cp /repo/$f $tmp/b/$f; sed -i "$e" $tmp/b/$f
if diff -q $tmp/a/$f $tmp/b/$f >/dev/null; then echo "NO CHANGE for $out"; rm -rf $tmp; exit 1; fi
(cd $tmp && diff -u a/$f b/$f > $out || true); rm -rf $tmp; echo "wrote $out"
