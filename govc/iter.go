package main

import (
	"fmt"
	"sort"
	"strings"

	"golang.org/x/tools/go/ssa"
)

// Iterator schema: a call  bf.ForEach(closure)  of a known iterator is executed as a cut loop whose body is
// the closure and whose iteration space is the ghost sequence the iterator's trusted contract defines.

var iteratorFuncs = map[string]bool{
	"github.com/filecoin-project/go-bitfield.(BitField).ForEach": true,
}

// declareBitfieldGhost declares bf_count / bf_bit and their (trusted) axioms: the set bits of a bit field are a
// strictly increasing sequence of uint64 values.
func (u *Unit) declareBitfieldGhost(sort string) {
	if u.specDecl["bf_ghost"] {
		return
	}
	u.specDecl["bf_ghost"] = true
	u.S.declareFun("bf_count", []string{sort}, "Int")
	u.S.declareFun("bf_bit", []string{sort, "Int"}, "Int")
	u.S.decls = append(u.S.decls,
		fmt.Sprintf("(assert (forall ((q!b %s)) (! (>= (bf_count q!b) 0) :pattern ((bf_count q!b)))))", sort),
		fmt.Sprintf("(assert (forall ((q!b %s) (q!k Int)) (! (=> (and (<= 0 q!k) (< q!k (bf_count q!b))) (and (<= 0 (bf_bit q!b q!k)) (<= (bf_bit q!b q!k) 18446744073709551615) (=> (> q!k 0) (< (bf_bit q!b (- q!k 1)) (bf_bit q!b q!k))))) :pattern ((bf_bit q!b q!k)))))", sort),
	)
	u.note("trusted: BitField.ForEach visits the set bits in strictly increasing order (ghost sequence bf_bit/bf_count), stops at the first callback error and returns it")
}

func (fr *Frame) isIteratorCall(cc *ssa.CallCommon) (*ssa.MakeClosure, bool) {
	callee := cc.StaticCallee()
	if callee == nil || !iteratorFuncs[funcKey(callee)] || len(cc.Args) != 2 {
		return nil, false
	}
	mc, ok := cc.Args[1].(*ssa.MakeClosure)
	if !ok {
		return nil, false
	}
	return mc, true
}

func (fr *Frame) iterCall(b *ssa.BasicBlock, idx int, ins ssa.Instruction, cc *ssa.CallCommon, mc *ssa.MakeClosure, res ssa.Value, st *State, reach string) {
	u := fr.u
	cfn := mc.Fn.(*ssa.Function)
	bf := fr.val(cc.Args[0])
	n := fr.callCount["$iter"] + 1
	fr.callCount["$iter"] = n
	fvals := map[*ssa.FreeVar]*Val{}
	for i, fv := range cfn.FreeVars {
		fvals[fv] = fr.val(mc.Bindings[i])
	}
	if fr.dry {
		// effects of the closure body
		sub := &Frame{u: u, fn: cfn, prefix: fmt.Sprintf("%siter%d/", fr.prefix, n), parent: fr, dry: true, freeVars: fvals}
		arg := fr.freshVal(cfn.Params[0].Type(), "x")
		sub.run("true", st, []*Val{arg})
		if res != nil {
			fr.vals[res] = fr.freshVal(res.Type(), fr.prefix+res.Name())
		}
		return
	}
	u.declareBitfieldGhost(u.S.sortOf(cc.Args[0].Type()))
	var spec *LoopSpec
	if top := fr.fcTop(); top != nil && fr.parent == nil {
		spec = top.Iters[n]
	}
	count := app("bf_count", bf.S)
	mkEnv := func(state *State, k string) *SpecEnv {
		env := fr.localEnv(b, idx, state)
		env.vars["iter"] = &Val{T: mathInt, S: k, Math: true}
		env.iterElem = func(j string) string { return app("bf_bit", bf.S, j) }
		env.iterCount = count
		return env
	}
	var invs []*invariant
	if spec != nil {
		for _, c := range spec.Invariants {
			invs = append(invs, &invariant{text: c.Text, clause: c})
		}
	}
	// which components does the closure write?
	d := &Frame{u: dryUnit(u), fn: cfn, prefix: fmt.Sprintf("%siter%d/", fr.prefix, n), dry: true, freeVars: fvals}
	d.written = map[int]map[string]bool{}
	d.run("true", &State{comps: map[string]string{}}, []*Val{fr.freshVal(cfn.Params[0].Type(), "x")})
	mod := map[string]bool{}
	for _, m := range d.written {
		for c := range m {
			mod[c] = true
		}
	}
	var ms []string
	for c := range mod {
		ms = append(ms, c)
	}
	sort.Strings(ms)
	// automatic frame invariants
	if fr.allow != nil && fr.top {
		for _, c := range ms {
			if c == "WM" || c == "*" || strings.HasPrefix(c, "VIS_") {
				continue
			}
			comp, so := c, u.compSort[c]
			ref := u.comp(st, comp, so)
			invs = append(invs, &invariant{text: "frame of " + comp + " (automatic)", auto: func(env *SpecEnv) string {
				return frameFormula(comp, u.comp(env.cur, comp, so), ref, fr.allow[comp])
			}})
		}
	}
	// 1. entry
	for k, inv := range invs {
		f := inv.eval(mkEnv(st, "0"))
		u.oblige(fmt.Sprintf("%s#iter-entry:%d:%s", u.Name, n, inv.id(k)), "loop-entry", fmt.Sprintf("iterator %d invariant holds initially: %s", n, inv.text), implies(reach, f), inv.clause)
	}
	// 2. havoc
	hst := st.clone()
	if mod["*"] {
		fr.havocAll(hst, "iterator")
	} else {
		for _, c := range ms {
			so := u.compSort[c]
			if c == "WM" {
				nn := u.S.fresh("WM@iter", "Int")
				u.assert("(>= " + nn + " " + u.comp(st, "WM", "Int") + ")")
				hst.comps[c] = nn
				continue
			}
			hst.comps[c] = u.S.fresh(fmt.Sprintf("%s%s@iter%d", fr.prefix, c, n), so)
		}
	}
	k := u.S.fresh(fmt.Sprintf("%siter%d_k", fr.prefix, n), "Int")
	u.assert(fmt.Sprintf("(and (<= 0 %s) (<= %s %s))", k, k, count))
	for _, inv := range invs {
		u.assert(implies(reach, inv.eval(mkEnv(hst, k))))
	}
	// 3. one arbitrary iteration
	bodyReach := u.S.fresh(fmt.Sprintf("%siter%d_body", fr.prefix, n), "Bool")
	u.assert(eq(bodyReach, and(reach, "(< "+k+" "+count+")")))
	sub := &Frame{u: u, fn: cfn, prefix: fmt.Sprintf("%siter%d/", fr.prefix, n), parent: fr, freeVars: fvals}
	arg := &Val{T: cfn.Params[0].Type(), S: app("bf_bit", bf.S, k)}
	u.depth++
	sub.run(bodyReach, hst.clone(), []*Val{arg})
	u.depth--
	var conds []string
	var states []*State
	var results []string
	parts := make([][]string, len(invs))
	for _, r := range sub.rets {
		errTerm := r.results[0].S
		okCond := and(r.reach, eq(errTerm, "0"))
		for kk, inv := range invs {
			parts[kk] = append(parts[kk], implies(okCond, inv.eval(mkEnv(r.st, "(+ "+k+" 1)"))))
		}
		conds = append(conds, and(r.reach, not(eq(errTerm, "0"))))
		states = append(states, r.st)
		results = append(results, errTerm)
	}
	for kk, inv := range invs {
		u.oblige(fmt.Sprintf("%s#iter-preserve:%d:%s", u.Name, n, inv.id(kk)), "loop-preserve", fmt.Sprintf("iterator %d invariant preserved by the callback: %s", n, inv.text), and(parts[kk]...), inv.clause)
	}
	// normal exit
	conds = append(conds, and(reach, eq(k, count)))
	states = append(states, hst)
	results = append(results, "0")
	// internal iterator error (malformed RLE+): state as at the header, some non-nil error
	ie := u.S.fresh(fmt.Sprintf("%siter%d_internal", fr.prefix, n), "Bool")
	ierr := u.S.fresh(fmt.Sprintf("%siter%d_err", fr.prefix, n), "Int")
	u.assert("(> " + ierr + " 0)")
	conds = append(conds, and(reach, ie))
	states = append(states, hst)
	results = append(results, ierr)
	merged := fr.mergeStates(b, conds, states)
	st.comps = merged.comps
	st.epoch = merged.epoch
	u.assert(implies(reach, or(conds...)))
	if res != nil {
		out := fr.declVal(res)
		expr := results[len(results)-1]
		for i := len(results) - 2; i >= 0; i-- {
			expr = ite(conds[i], results[i], expr)
		}
		u.assert(eq(out.S, expr))
	}
}
