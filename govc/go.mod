module govc

go 1.24.6

require (
	github.com/filecoin-project/go-f3 v0.0.0
	golang.org/x/tools v0.40.0
)

require (
	golang.org/x/mod v0.31.0 // indirect
	golang.org/x/sync v0.19.0 // indirect
)

replace github.com/filecoin-project/go-f3 => /repo
