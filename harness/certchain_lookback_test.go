package certchain_test

import (
	"bytes"
	"context"
	"fmt"
	"math/rand"
	"testing"
	"time"

	"github.com/filecoin-project/go-f3/certchain"
	"github.com/filecoin-project/go-f3/gpbft"
	"github.com/filecoin-project/go-f3/internal/clock"
	"github.com/filecoin-project/go-f3/internal/consensus"
	"github.com/filecoin-project/go-f3/manifest"
	"github.com/filecoin-project/go-f3/sim/signing"
)

// Replay harness for certchain.(*CertChain).GetCommittee: a node takes the committee of instance i from the
// head finalized by the certificate of instance i - CommitteeLookback. Compare the generator with that rule.
func TestVerifReplay(t *testing.T) {
	const seed = 1427
	ctx, clk := clock.WithMockClock(context.Background())
	m := manifest.LocalDevnetManifest()
	m.InitialInstance = 100
	sv := signing.NewFakeBackend()
	rng := rand.New(rand.NewSource(seed * 23))
	genKey := func(id gpbft.ActorID) gpbft.PubKey { return sv.Allow(int(id)) }
	initial := generatePowerTable(t, rng, genKey, nil)
	ec := consensus.NewFakeEC(
		consensus.WithClock(clk), consensus.WithSeed(seed*13), consensus.WithBootstrapEpoch(m.BootstrapEpoch),
		consensus.WithECPeriod(m.EC.Period), consensus.WithInitialPowerTable(initial),
	)
	cc, err := certchain.New(certchain.WithSeed(seed), certchain.WithSignVerifier(sv), certchain.WithManifest(m), certchain.WithEC(ec))
	if err != nil {
		t.Fatal(err)
	}
	clk.Add(200 * time.Hour)
	chain, err := cc.Generate(ctx, 30)
	if err != nil {
		t.Fatal(err)
	}
	bad := 0
	for i := m.InitialInstance + m.CommitteeLookback; i < m.InitialInstance+uint64(len(chain)); i++ {
		lookbackCert := chain[i-m.CommitteeLookback-m.InitialInstance]
		if lookbackCert.GPBFTInstance != i-m.CommitteeLookback {
			t.Fatalf("unexpected indexing of generated chain")
		}
		ts, err := ec.GetTipsetByEpoch(ctx, lookbackCert.ECChain.Head().Epoch)
		if err != nil {
			t.Fatal(err)
		}
		got, err := cc.GetCommittee(ctx, i)
		if err != nil {
			t.Fatal(err)
		}
		if !bytes.Equal(got.Beacon, ts.Beacon()) {
			if bad == 0 {
				fmt.Printf("instance %d: generator's committee beacon differs from the beacon at the head finalized by instance %d (epoch %d)\n", i, i-m.CommitteeLookback, lookbackCert.ECChain.Head().Epoch)
			}
			bad++
		}
	}
	if bad > 0 {
		fmt.Printf("REPLAY-CONFIRMED certchain.GetCommittee deviates from the node's look-back rule for %d instances\n", bad)
	} else {
		fmt.Println("REPLAY-NOT-REPRODUCED")
	}
}
