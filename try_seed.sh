#!/bin/bash
# usage: try_seed.sh <seed dir with patch.diff> <property id> — applies the change to a scratch copy of /repo (outside /repo
# and /verif), runs the property's quick check on the copy (evidence and replays go to a scratch dir), removes both.
SD=$1; P=$2
SC=$(mktemp -d /tmp/govc-seedrepo-XXXX); OUT=$(mktemp -d /tmp/govc-seedout-XXXX)
rsync -a --exclude=.git /repo/ $SC/
patch -p1 -s -d $SC -i $SD/patch.diff || { echo "APPLY-FAILED"; rm -rf $SC $OUT; exit 2; }
VERIF_REPO=$SC VERIF_OUT=$OUT /verif/bin/govc check --property $P --tier quick > $OUT/log 2>&1; rc=$?
echo "rc=$rc"; grep "^VIOLATION" $OUT/log | sed 's/replay=[^ ]* //' | cut -c1-260; tail -1 $OUT/log | cut -c1-160
rm -rf $SC $OUT
