#!/bin/bash
# usage: mut.sh <file> <sed-expr> <govc args...>   — applies a sed edit to a scratch copy of /repo and runs govc on it
set -e
SC=$(mktemp -d /tmp/govc-mut-XXXX)
rsync -a --exclude=.git /repo/ $SC/
f=$1; e=$2; shift 2
sed -i "$e" $SC/$f
if diff -q /repo/$f $SC/$f >/dev/null; then echo "MUTATION DID NOT APPLY"; rm -rf $SC; exit 3; fi
diff /repo/$f $SC/$f | head -6 || true
VERIF_REPO=$SC /verif/bin/govc "$@" || true
rm -rf $SC
