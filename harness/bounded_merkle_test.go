package merkle

import (
	"fmt"
	"testing"
)

// Bounded stand-in (C14, chain keys): BatchTree(values)[i] == Tree(values[:i+1]) on the real functions, for every
// length n <= 160 (ChainMaxLen is 128) and four leaf patterns. Labelled bounded; never counted as proved.
func TestVerifBounded(t *testing.T) {
	cases := 0
	for pattern := 0; pattern < 4; pattern++ {
		for n := 0; n <= 160; n++ {
			values := make([][]byte, n)
			for i := range values {
				switch pattern {
				case 0: // distinct fixed-width leaves
					values[i] = []byte{byte(i), byte(i >> 8), 0xaa}
				case 1: // all leaves equal
					values[i] = []byte{7}
				case 2: // growing lengths, including the empty leaf
					values[i] = make([]byte, i%5)
					for j := range values[i] {
						values[i][j] = byte(i*31 + j)
					}
				default: // long leaves
					values[i] = make([]byte, 100+i)
					for j := range values[i] {
						values[i][j] = byte(j ^ i)
					}
				}
			}
			batch := BatchTree(values)
			if len(batch) != n {
				t.Fatalf("BOUNDED-FAIL pattern %d n %d: %d roots", pattern, n, len(batch))
			}
			for i := 0; i < n; i++ {
				if batch[i] != Tree(values[:i+1]) {
					t.Fatalf("BOUNDED-FAIL pattern %d n %d: root %d of the batch differs from Tree(values[:%d])", pattern, n, i, i+1)
				}
				cases++
			}
		}
	}
	fmt.Printf("BOUNDED-CASES %d\n", cases)
}
