package main

import (
	"fmt"
	"os"
	"os/exec"
	"path/filepath"
	"strings"
)

// cmdSelftest runs the must-fail / must-pass corpus (/verif/selftest/run.py); arguments are passed through
// (--property ID, --name substr, -j N).
func cmdSelftest(args []string) int {
	cmd := exec.Command("python3", append([]string{filepath.Join(verifDir(), "selftest", "run.py")}, args...)...)
	cmd.Stdout = os.Stdout
	cmd.Stderr = os.Stderr
	if err := cmd.Run(); err != nil {
		return 1
	}
	return 0
}

// corpusFor runs the corpus entries of one property (thorough tier) and summarises the outcome for the evidence
// file. A corpus entry that misbehaves is a regression of the checker, not a violation of the property on this tree:
// it is reported on stderr and in the evidence, and does not change the exit status.
func corpusFor(prop string) map[string]any {
	if os.Getenv("VERIF_REPO") != "" || os.Getenv("VERIF_NO_CORPUS") != "" {
		return nil // already inside a corpus run
	}
	cmd := exec.Command("python3", filepath.Join(verifDir(), "selftest", "run.py"), "--property", prop, "-j", "3")
	out, _ := cmd.CombinedOutput()
	res := map[string]any{}
	pass, fail := 0, 0
	var bad []string
	for _, ln := range strings.Split(string(out), "\n") {
		switch {
		case strings.HasPrefix(ln, "PASS "):
			pass++
		case strings.HasPrefix(ln, "FAIL "):
			fail++
			bad = append(bad, truncate(ln, 300))
		}
	}
	res["entries"] = pass + fail
	res["behaved_as_expected"] = pass
	res["misbehaved"] = bad
	res["what"] = "must-fail changes (independently written changes, canaries reverting a repair, clause mutations) and must-pass edits of this property, each applied to a scratch copy of /repo and checked with the quick tier"
	if fail > 0 {
		fmt.Fprintf(os.Stderr, "govc: %d corpus entries of %s did not behave as expected (checker regression, not a violation of this tree):\n%s\n", fail, prop, strings.Join(bad, "\n"))
	}
	return res
}
