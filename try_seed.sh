#!/bin/bash
# usage: try_seed.sh <seed dir with patch.diff> <property id> — applies the change to /repo, runs the property's quick check
# (evidence and replays go to a scratch dir), and takes the change out again.
SD=$1; P=$2
OUT=$(mktemp -d /tmp/govc-seedout-XXXX)
git -C /repo apply $SD/patch.diff || { echo "APPLY-FAILED"; exit 2; }
VERIF_OUT=$OUT /verif/bin/govc check --property $P --tier quick > $OUT/log 2>&1; rc=$?
git -C /repo apply -R $SD/patch.diff || echo "REVERT FAILED"
echo "rc=$rc"; grep "^VIOLATION" $OUT/log | sed 's/replay=[^ ]* //' | cut -c1-260; tail -1 $OUT/log | cut -c1-160
rm -rf $OUT
