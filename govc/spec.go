package main

import (
	"fmt"
	"go/ast"
	"go/constant"
	"go/token"
	"go/types"
	"math/big"
	"strconv"
	"strings"
)

// SpecEnv is the evaluation context of a contract expression.
type SpecEnv struct {
	fr      *Frame
	vars    map[string]*Val
	cur     *State
	old     *State
	pkg     *types.Package
	resolve func(name string) *Val
	errs    *[]string
	depth   int
	iterElem func(j string) string // elem(j) inside an iterator invariant
	iterCount string
	bound    map[string]string // bound variables in scope (SMT name -> sort)
	callArgs []*Val            // arg(i) inside an "at <callee> n" block
	callRecv *Val              // recv() inside an "at <method> n" block of an interface call
	atCallSite bool            // a callee's contract instantiated at a call: res() of the callee's own calls is unknown
	skip     *bool             // set when the clause cannot be expressed in this context
	oldVars  map[string]*Val   // parameter values at function entry (for old())
	visited  func(k string) string  // ghost visited set of the enclosing map range
	prevVal  func(name string) *Val // start-of-iteration values (loopback sites)
	prevState *State
	siteDominated func(callee string, n int) bool // structural: is this site dominated by that call?
	forced   map[string]bool   // names whose binding in vars overrides program-point resolution (loop phis)
}

// typed records the type invariant (integer range, slice shape) of a value read from the heap.
func (e *SpecEnv) typed(v *Val) *Val {
	if v == nil || v.T == nil || v.S == "" || e.fr.dry {
		return v
	}
	f := and(e.fr.u.rangeFormula(v.S, v.T, 0), e.fr.u.allocFormula(v.S, v.T, e.cur))
	if f == "true" {
		return v
	}
	if strings.Contains(v.S, "q!") {
		// typing axiom for this shape of heap read, for all values of the bound variables it mentions
		var binders []string
		for bv, so := range e.bound {
			if containsIdent(f, bv) {
				binders = append(binders, "("+bv+" "+so+")")
			}
		}
		if len(binders) == 0 {
			return v
		}
		sortStrings(binders)
		e.fr.u.assertOnce(fmt.Sprintf("(forall (%s) (! %s :pattern (%s)))", strings.Join(binders, " "), f, v.S))
		return v
	}
	e.fr.u.assertOnce(f)
	return v
}

var mathInt = types.Typ[types.UntypedInt]
var boolT = types.Typ[types.Bool]

func (e *SpecEnv) fail(format string, a ...any) *Val {
	msg := fmt.Sprintf(format, a...)
	if e.errs != nil {
		*e.errs = append(*e.errs, msg)
	}
	return &Val{T: boolT, S: "false", Math: true}
}

func (e *SpecEnv) with(vars map[string]*Val) *SpecEnv {
	n := *e
	n.vars = map[string]*Val{}
	for k, v := range e.vars {
		n.vars[k] = v
	}
	n.forced = map[string]bool{}
	for k := range e.forced {
		n.forced[k] = true
	}
	for k, v := range vars {
		n.vars[k] = v
		n.forced[k] = true
	}
	return &n
}

func (e *SpecEnv) inOld() *SpecEnv {
	n := *e
	if e.old != nil {
		n.cur = e.old
	}
	if e.oldVars != nil {
		// old(x) of a parameter is its value at entry, whatever has been assigned to it since
		n.vars = map[string]*Val{}
		for k, v := range e.oldVars {
			n.vars[k] = v
		}
		for k, v := range e.vars {
			if e.bound["q!"+k] != "" { // quantified variables stay in scope inside old()
				n.vars[k] = v
			}
		}
		n.resolve = nil
	}
	return &n
}

// lookupElemType: inside a composite type "int" is Go's int (a stored value), not the mathematical integer that a
// bare "int" parameter of a predicate denotes.
func (e *SpecEnv) lookupElemType(name string) types.Type {
	if strings.TrimSpace(name) == "int" {
		return types.Typ[types.Int]
	}
	return e.lookupType(name)
}

func (e *SpecEnv) lookupType(name string) types.Type {
	name = strings.TrimSpace(name)
	for strings.HasPrefix(name, "(") && strings.HasSuffix(name, ")") {
		name = strings.TrimSpace(name[1 : len(name)-1])
	}
	if strings.HasPrefix(name, "*") {
		t := e.lookupType(name[1:])
		if t == nil {
			return nil
		}
		return types.NewPointer(t)
	}
	if strings.HasPrefix(name, "[]") {
		t := e.lookupElemType(name[2:])
		if t == nil {
			return nil
		}
		return types.NewSlice(t)
	}
	if strings.HasPrefix(name, "[") && !strings.HasPrefix(name, "[]") {
		// array type [N]T
		if j := strings.Index(name, "]"); j > 0 {
			var n int64
			if _, err := fmt.Sscanf(name[1:j], "%d", &n); err == nil {
				if t := e.lookupElemType(name[j+1:]); t != nil {
					return types.NewArray(t, n)
				}
			}
		}
		return nil
	}
	if strings.HasPrefix(name, "map[") {
		cl := matchBracket(name, 3)
		k := e.lookupElemType(name[4:cl])
		v := e.lookupElemType(name[cl+1:])
		if k == nil || v == nil {
			return nil
		}
		return types.NewMap(k, v)
	}
	switch name {
	case "int":
		return mathInt
	case "mathint":
		return mathInt
	}
	if o := types.Universe.Lookup(name); o != nil {
		if tn, ok := o.(*types.TypeName); ok {
			return tn.Type()
		}
	}
	if i := strings.LastIndex(name, "."); i >= 0 {
		pn, tn := name[:i], name[i+1:]
		for path, p := range e.fr.u.P.ByPath {
			if p.Types != nil && (p.Types.Name() == pn || path == pn) {
				if o := p.Types.Scope().Lookup(tn); o != nil {
					if t, ok := o.(*types.TypeName); ok {
						return t.Type()
					}
				}
			}
		}
		return nil
	}
	if e.pkg != nil {
		if o := e.pkg.Scope().Lookup(name); o != nil {
			if t, ok := o.(*types.TypeName); ok {
				return t.Type()
			}
		}
	}
	return nil
}

func matchBracket(s string, open int) int {
	d := 0
	for i := open; i < len(s); i++ {
		if s[i] == '[' {
			d++
		} else if s[i] == ']' {
			d--
			if d == 0 {
				return i
			}
		}
	}
	return len(s) - 1
}

func (e *SpecEnv) lookupConst(pkgName, name string) *Val {
	var scope *types.Scope
	if pkgName == "" {
		if e.pkg == nil {
			return nil
		}
		scope = e.pkg.Scope()
	} else {
		for _, p := range e.fr.u.P.ByPath {
			if p.Types != nil && p.Types.Name() == pkgName {
				scope = p.Types.Scope()
				break
			}
		}
		if scope == nil {
			return nil
		}
	}
	o := scope.Lookup(name)
	c, ok := o.(*types.Const)
	if !ok {
		return nil
	}
	switch c.Val().Kind() {
	case constant.Int:
		bi, _ := new(big.Int).SetString(c.Val().ExactString(), 10)
		return &Val{T: c.Type(), S: intLit(bi), Math: true}
	case constant.Bool:
		return &Val{T: boolT, S: strconv.FormatBool(constant.BoolVal(c.Val()))}
	case constant.String:
		return &Val{T: c.Type(), S: e.fr.u.S.strLit(constant.StringVal(c.Val()))}
	}
	return nil
}

// lookupGlobal resolves a package-level variable to the constant it is read as (globals are assumed never
// reassigned after package initialisation).
func (e *SpecEnv) lookupGlobal(pkgName, name string) *Val {
	var pkg *types.Package
	if pkgName == "" {
		pkg = e.pkg
	} else {
		for _, p := range e.fr.u.P.ByPath {
			if p.Types != nil && p.Types.Name() == pkgName {
				pkg = p.Types
				break
			}
		}
	}
	if pkg == nil {
		return nil
	}
	v, ok := pkg.Scope().Lookup(name).(*types.Var)
	if !ok {
		return nil
	}
	u := e.fr.u
	n := "gval_" + mangle(pkg.Name()+"_"+name)
	u.S.declare(n, u.S.sortOf(v.Type()))
	if types.Identical(v.Type(), types.Universe.Lookup("error").Type()) && strings.HasPrefix(name, "E") {
		u.assertOnce("(> " + n + " 0)")
		u.errGlobals = appendUnique(u.errGlobals, n)
	}
	return &Val{T: v.Type(), S: n}
}

func (e *SpecEnv) boolean(x ast.Expr) string {
	v := e.eval(x)
	return v.S
}

func (e *SpecEnv) eval(x ast.Expr) *Val {
	u := e.fr.u
	switch x := x.(type) {
	case *ast.ParenExpr:
		return e.eval(x.X)
	case *ast.Ident:
		switch x.Name {
		case "true", "false":
			return &Val{T: boolT, S: x.Name}
		case "nil":
			return &Val{T: types.Typ[types.UntypedNil], S: "0"}
		}
		if v, ok := e.vars[x.Name]; ok && (e.resolve == nil || e.forced[x.Name] || strings.HasPrefix(x.Name, "$") || x.Name == "iter" || e.bound["q!"+x.Name] != "") {
			return v
		}
		if e.resolve != nil {
			// current value of the source-level variable at this program point (parameters may have been reassigned)
			if v := e.resolve(x.Name); v != nil {
				return v
			}
		}
		if v, ok := e.vars[x.Name]; ok {
			return v
		}
		if v := e.lookupConst("", x.Name); v != nil {
			return v
		}
		if v := e.lookupGlobal("", x.Name); v != nil {
			return v
		}
		return e.fail("unknown identifier %q", x.Name)
	case *ast.BasicLit:
		switch x.Kind {
		case token.INT:
			bi, ok := new(big.Int).SetString(strings.ReplaceAll(x.Value, "_", ""), 0)
			if !ok {
				return e.fail("bad int literal %s", x.Value)
			}
			return &Val{T: mathInt, S: intLit(bi), Math: true}
		case token.STRING:
			s, _ := strconv.Unquote(x.Value)
			return &Val{T: types.Typ[types.String], S: u.S.strLit(s)}
		}
		return e.fail("unsupported literal %s", x.Value)
	case *ast.UnaryExpr:
		if x.Op == token.AND {
			// address of a location: &p.f
			pl := e.placeExpr(x.X)
			if pl == nil {
				return e.fail("cannot take the address of %s", exprText(x.X))
			}
			return &Val{T: types.NewPointer(pl.typ()), Place: pl}
		}
		v := e.eval(x.X)
		switch x.Op {
		case token.NOT:
			return &Val{T: boolT, S: not(v.S)}
		case token.SUB:
			return &Val{T: mathInt, S: "(- " + v.S + ")", Math: true}
		}
		return e.fail("unsupported unary %s", x.Op)
	case *ast.StarExpr:
		v := e.eval(x.X)
		return e.typed(e.fr.load(e.cur, e.fr.placeOf(v)))
	case *ast.BinaryExpr:
		return e.binary(x)
	case *ast.SelectorExpr:
		// package-qualified constant?
		if id, ok := x.X.(*ast.Ident); ok {
			if _, isVar := e.vars[id.Name]; !isVar {
				if e.resolve == nil || e.resolve(id.Name) == nil {
					if v := e.lookupConst(id.Name, x.Sel.Name); v != nil {
						return v
					}
					if v := e.lookupGlobal(id.Name, x.Sel.Name); v != nil {
						return v
					}
				}
			}
		}
		v := e.eval(x.X)
		return e.selectField(v, x.Sel.Name)
	case *ast.IndexExpr:
		v := e.eval(x.X)
		i := e.eval(x.Index)
		return e.index(v, i)
	case *ast.SliceExpr:
		// a[:] of an addressable array: the slice over the whole array, as go/ssa's Slice of a *[N]T
		if x.Low == nil && x.High == nil && x.Max == nil {
			if pl := e.placeExprQuiet2(x.X); pl != nil {
				if at, ok := types.Unalias(pl.typ()).Underlying().(*types.Array); ok {
					n := fmt.Sprint(at.Len())
					ptr := e.fr.termOf(&Val{T: types.NewPointer(pl.typ()), Place: pl})
					return &Val{T: types.NewSlice(at.Elem()), S: fmt.Sprintf("(mk_Slice %s 0 %s %s)", ptr, n, n)}
				}
			}
		}
		v := e.eval(x.X)
		lo := "0"
		hi := app("sl_len", v.S)
		if x.Low != nil {
			lo = e.eval(x.Low).S
		}
		if x.High != nil {
			hi = e.eval(x.High).S
		}
		return &Val{T: v.T, S: fmt.Sprintf("(mk_Slice (sl_arr %s) (+ (sl_off %s) %s) (- %s %s) (- (sl_cap %s) %s))", v.S, v.S, lo, hi, lo, v.S, lo)}
	case *ast.CallExpr:
		return e.call(x)
	}
	return e.fail("unsupported spec expression %T", x)
}

// placeExprQuiet2: like placeExpr, for identifiers only, without recording an error.
func (e *SpecEnv) placeExprQuiet2(x ast.Expr) *Place {
	if _, ok := x.(*ast.Ident); ok {
		return e.placeExpr(x)
	}
	return e.placeExprQuiet(x)
}

func derefStruct(t types.Type) (*types.Struct, types.Type, bool) {
	if t == nil {
		return nil, nil, false
	}
	t = types.Unalias(t)
	if p, ok := t.Underlying().(*types.Pointer); ok {
		if st, ok := p.Elem().Underlying().(*types.Struct); ok {
			return st, p.Elem(), true
		}
		return nil, nil, false
	}
	if st, ok := t.Underlying().(*types.Struct); ok {
		return st, t, false
	}
	return nil, nil, false
}

func (e *SpecEnv) selectField(v *Val, name string) *Val {
	u := e.fr.u
	if v.T == nil {
		return e.fail("selector .%s on untyped value", name)
	}
	st, stT, isPtr := derefStruct(v.T)
	if st == nil && strings.HasPrefix(strings.TrimPrefix(v.S, "|"), "nores!") {
		// a field of the result of a call that is absent: unconstrained as well
		return &Val{T: mathInt, S: e.fr.u.S.fresh("nores", "Int"), Math: true}
	}
	if st == nil {
		return e.fail("selector .%s on non-struct type %s", name, v.T)
	}
	if _, ov := sortOverrides[typeKey(types.Unalias(stT))]; ov {
		return e.fail("selector .%s on abstracted type %s", name, stT)
	}
	idx := -1
	for i := 0; i < st.NumFields(); i++ {
		if st.Field(i).Name() == name {
			idx = i
		}
	}
	if idx < 0 {
		// promoted field through embedded struct
		for i := 0; i < st.NumFields(); i++ {
			if st.Field(i).Embedded() {
				inner := e.selectField(v, st.Field(i).Name())
				if s2, _, _ := derefStruct(inner.T); s2 != nil {
					for j := 0; j < s2.NumFields(); j++ {
						if s2.Field(j).Name() == name {
							return e.selectField(inner, name)
						}
					}
				}
			}
		}
		return e.fail("no field %s in %s", name, stT)
	}
	ft := st.Field(idx).Type()
	if isPtr || v.Place != nil {
		pl := e.fr.placeOf(v)
		if v.Place == nil {
			pl = &Place{Base: v.S, BaseT: stT}
		}
		npl := pl.extend(idx)
		// keep it as a place so that further selection / address-of works; materialise by load
		lv := e.fr.load(e.cur, npl)
		lv.T = ft
		return e.typed(lv)
	}
	so := u.S.sortOf(stT)
	return &Val{T: ft, S: app(u.S.selName(so, idx), v.S)}
}

func (e *SpecEnv) index(v, i *Val) *Val {
	u := e.fr.u
	if v.T == nil {
		return e.fail("index on untyped value")
	}
	switch t := types.Unalias(v.T).Underlying().(type) {
	case *types.Slice:
		pl := &Place{Base: app("sl_arr", v.S), BaseT: t.Elem(), Elem: true, Idx: "(+ (sl_off " + v.S + ") " + i.S + ")"}
		return e.typed(e.fr.load(e.cur, pl))
	case *types.Map:
		return e.typed(&Val{T: t.Elem(), S: u.mapVal(e.cur, t, v.S, i.S)})
	}
	return e.fail("index on unsupported type %s", v.T)
}

func (e *SpecEnv) binary(x *ast.BinaryExpr) *Val {
	l := e.eval(x.X)
	r := e.eval(x.Y)
	ls, rs := e.fr.termOf(l), e.fr.termOf(r)
	switch x.Op {
	case token.LAND:
		return &Val{T: boolT, S: and(ls, rs)}
	case token.LOR:
		return &Val{T: boolT, S: or(ls, rs)}
	case token.EQL, token.NEQ:
		// the result of a call that is absent (res() of a missing site) takes the sort of what it is compared with
		if strings.HasPrefix(ls, "nores!") || strings.HasPrefix(ls, "|nores!") {
			if so := e.sortOfVal(r); so != "" && so != "Int" {
				ls = e.fr.u.S.fresh("nores", so)
			}
		} else if strings.HasPrefix(rs, "nores!") || strings.HasPrefix(rs, "|nores!") {
			if so := e.sortOfVal(l); so != "" && so != "Int" {
				rs = e.fr.u.S.fresh("nores", so)
			}
		}
		// an interface value compared with a concrete one: box the concrete side as MakeInterface does
		box := func(iface, conc *Val, cs string, cx ast.Expr) string {
			if iface.T == nil || conc.T == nil || isNilLit(cx) || !types.IsInterface(iface.T) || types.IsInterface(conc.T) || conc.Math {
				return cs
			}
			if b, ok := conc.T.(*types.Basic); ok && b.Info()&types.IsUntyped != 0 {
				return cs
			}
			return e.fr.u.boxed(conc.T, cs, true)
		}
		ls, rs = box(r, l, ls, x.X), box(l, r, rs, x.Y)
		// nil comparisons on slices compare the backing array
		if isNilLit(x.Y) && e.sortOfVal(l) == "Slice" {
			ls, rs = app("sl_arr", ls), "0"
		} else if isNilLit(x.X) && e.sortOfVal(r) == "Slice" {
			ls, rs = "0", app("sl_arr", rs)
		}
		s := eq(ls, rs)
		if x.Op == token.NEQ {
			s = not(s)
		}
		return &Val{T: boolT, S: s}
	case token.LSS, token.LEQ, token.GTR, token.GEQ:
		op := map[token.Token]string{token.LSS: "<", token.LEQ: "<=", token.GTR: ">", token.GEQ: ">="}[x.Op]
		if e.sortOfVal(l) == "Float" && e.sortOfVal(r) == "Float" {
			// floats are uninterpreted: the comparison is the same symbol the code's comparison is translated to
			switch x.Op {
			case token.LSS:
				return &Val{T: boolT, S: app("f_lt", ls, rs)}
			case token.LEQ:
				return &Val{T: boolT, S: app("f_le", ls, rs)}
			case token.GTR:
				return &Val{T: boolT, S: app("f_lt", rs, ls)}
			default:
				return &Val{T: boolT, S: app("f_le", rs, ls)}
			}
		}
		return &Val{T: boolT, S: "(" + op + " " + ls + " " + rs + ")"}
	case token.ADD:
		return &Val{T: mathInt, S: "(+ " + ls + " " + rs + ")", Math: true}
	case token.SUB:
		return &Val{T: mathInt, S: "(- " + ls + " " + rs + ")", Math: true}
	case token.MUL:
		return &Val{T: mathInt, S: "(* " + ls + " " + rs + ")", Math: true}
	case token.QUO:
		return &Val{T: mathInt, S: smtTruncDiv(ls, rs), Math: true}
	case token.REM:
		return &Val{T: mathInt, S: smtTruncRem(ls, rs), Math: true}
	}
	return e.fail("unsupported binary operator %s", x.Op)
}

func isNilLit(x ast.Expr) bool {
	id, ok := x.(*ast.Ident)
	return ok && id.Name == "nil"
}

func (e *SpecEnv) sortOfVal(v *Val) string {
	if v.T == nil {
		return ""
	}
	if v.T == mathInt {
		return "Int"
	}
	return e.fr.u.S.sortOf(v.T)
}

func (e *SpecEnv) call(x *ast.CallExpr) *Val {
	u := e.fr.u
	fname := exprText(x.Fun)
	arg := func(i int) *Val { return e.eval(x.Args[i]) }
	switch fname {
	case "old":
		return e.inOld().eval(x.Args[0])
	case "implies":
		return &Val{T: boolT, S: implies(arg(0).S, arg(1).S)}
	case "iff":
		return &Val{T: boolT, S: eq(arg(0).S, arg(1).S)}
	case "ite":
		a, b := arg(1), arg(2)
		return &Val{T: a.T, S: ite(arg(0).S, a.S, b.S), Math: a.Math}
	case "len":
		v := arg(0)
		switch e.sortOfVal(v) {
		case "Slice":
			return &Val{T: mathInt, S: app("sl_len", v.S), Math: true}
		case "Str":
			return &Val{T: mathInt, S: app("strlen", v.S), Math: true}
		case "Int":
			return &Val{T: mathInt, S: u.mapLen(e.cur, v.S), Math: true}
		}
		return e.fail("len of unsupported value")
	case "cap":
		v := arg(0)
		return &Val{T: mathInt, S: app("sl_cap", v.S), Math: true}
	case "has":
		m := arg(0)
		k := arg(1)
		mt, ok := types.Unalias(m.T).Underlying().(*types.Map)
		if !ok {
			return e.fail("has() on non-map")
		}
		return &Val{T: boolT, S: u.mapHas(e.cur, mt, m.S, e.fr.termOf(k))}
	case "min", "max":
		a, b := arg(0), arg(1)
		op := "<="
		if fname == "max" {
			op = ">="
		}
		return &Val{T: mathInt, S: ite("("+op+" "+a.S+" "+b.S+")", a.S, b.S), Math: true}
	case "abs":
		a := arg(0)
		return &Val{T: mathInt, S: ite("(>= "+a.S+" 0)", a.S, "(- "+a.S+")"), Math: true}
	case "errIs":
		return &Val{T: boolT, S: app("err_is", arg(0).S, arg(1).S)}
	case "allocated":
		// the reference existed at function entry
		return &Val{T: boolT, S: "(< " + e.fr.termOf(arg(0)) + " WM@0)"}
	case "forall", "exists":
		return e.quant(fname, x)
	case "elem":
		if e.iterElem == nil || len(x.Args) != 1 {
			return e.fail("elem() is only available in iterator invariants")
		}
		return &Val{T: mathInt, S: e.iterElem(arg(0).S), Math: true}
	case "count":
		if e.iterCount == "" {
			return e.fail("count() is only available in iterator invariants")
		}
		return &Val{T: mathInt, S: e.iterCount, Math: true}
	case "recv":
		if e.callRecv != nil {
			return e.callRecv
		}
		return e.fail("recv(): this site is not an interface method call")
	case "recvOf":
		// recvOf(Method, n): the receiver of the n-th interface call of Method in this function
		if len(x.Args) == 2 && e.fr.callArgVals != nil {
			key := exprText(x.Args[0]) + "#" + exprText2(x.Args[1]) + "#recv"
			if avs, ok := e.fr.callArgVals[key]; ok && len(avs) == 1 {
				return avs[0]
			}
		}
		return &Val{T: mathInt, S: e.fr.u.S.fresh("norecv", "Int"), Math: true}
	case "chancap":
		// the capacity the channel was made with (ghost attribute set at make(chan T, n))
		e.fr.u.S.declareFun("chan_cap", []string{"Int"}, "Int")
		return &Val{T: mathInt, S: app("chan_cap", e.fr.termOf(arg(0))), Math: true}
	case "bfCount":
		v := arg(0)
		e.fr.u.declareBitfieldGhost(e.sortOfVal(v))
		return &Val{T: mathInt, S: app("bf_count", v.S), Math: true}
	case "bfBit":
		v := arg(0)
		e.fr.u.declareBitfieldGhost(e.sortOfVal(v))
		return &Val{T: mathInt, S: app("bf_bit", v.S, arg(1).S), Math: true}
	case "prev":
		// prev(x): value of loop variable x at the start of the iteration (only at "at loopback n")
		if e.prevVal != nil && len(x.Args) == 1 {
			// evaluate the argument with loop variables bound to their start-of-iteration values
			n := *e
			cur := e.resolve
			n.resolve = func(name string) *Val {
				if v := e.prevVal(name); v != nil {
					return v
				}
				// not a loop variable: a name defined inside the body keeps the value it has in this iteration
				if cur != nil {
					return cur(name)
				}
				return nil
			}
			// quantifier-bound variables stay in scope inside prev()
			n.vars = map[string]*Val{}
			for k, v := range e.vars {
				if e.bound["q!"+k] != "" {
					n.vars[k] = v
				}
			}
			n.forced = nil
			if e.prevState != nil {
				n.cur = e.prevState
			}
			return n.eval(x.Args[0])
		}
		return e.fail("prev() is only available at loopback sites")
	case "argOf":
		// argOf(Callee, n, i): the i-th argument of the n-th call of Callee in this function
		if len(x.Args) == 3 && e.fr.callArgVals != nil {
			key := exprText(x.Args[0]) + "#" + exprText2(x.Args[1])
			var i int
			fmt.Sscanf(exprText2(x.Args[2]), "%d", &i)
			if avs, ok := e.fr.callArgVals[key]; ok && i < len(avs) {
				return avs[i]
			}
		}
		// no such call (yet): an unconstrained value — combine with dominatedBy() to demand that the call exists
		return &Val{T: mathInt, S: e.fr.u.S.fresh("noarg", "Int"), Math: true}
	case "visited":
		if e.visited == nil || len(x.Args) != 1 {
			return e.fail("visited() is only available in invariants of a loop ranging over a map")
		}
		return &Val{T: boolT, S: e.visited(e.fr.termOf(arg(0)))}
	case "called":
		// called(Callee, n): the n-th call of Callee was executed on the way here (its path condition)
		if len(x.Args) == 2 {
			key := exprText(x.Args[0]) + "#" + exprText2(x.Args[1])
			if r, ok := e.fr.siteReach[key]; ok {
				return &Val{T: boolT, S: r}
			}
			return &Val{T: boolT, S: "false"}
		}
		return e.fail("called(callee, n) needs two arguments")
	case "dominatedBy":
		if e.siteDominated != nil && len(x.Args) == 2 {
			var n int
			fmt.Sscanf(exprText2(x.Args[1]), "%d", &n)
			if e.siteDominated(exprText(x.Args[0]), n) {
				return &Val{T: boolT, S: "true"}
			}
			return &Val{T: boolT, S: "false"}
		}
		return e.fail("dominatedBy() is only available at call sites")
	case "arg":
		if lit, ok := x.Args[0].(*ast.BasicLit); ok && e.callArgs != nil {
			var i int
			fmt.Sscanf(lit.Value, "%d", &i)
			if i < len(e.callArgs) {
				return e.callArgs[i]
			}
		}
		return e.fail("arg(): no such argument")
	case "res":
		// res(Callee, n): result of the n-th call of Callee in the function under contract
		if e.atCallSite {
			if e.skip != nil {
				*e.skip = true
			}
			return &Val{T: mathInt, S: "0", Math: true}
		}
		if len(x.Args) >= 2 && e.fr.callResults != nil {
			key := exprText(x.Args[0]) + "#" + exprText2(x.Args[1])
			if v, ok := e.fr.callResults[key]; ok {
				rv := e.fr.val(v)
				if len(x.Args) == 3 && rv.Tuple != nil {
					var k int
					fmt.Sscanf(exprText2(x.Args[2]), "%d", &k)
					if k < len(rv.Tuple) {
						return rv.Tuple[k]
					}
				}
				return rv
			}
		}
		// no such call on this path / in this function: an unconstrained value (use dominatedBy() to demand the call)
		return &Val{T: mathInt, S: e.fr.u.S.fresh("nores", "Int"), Math: true}
	case "int", "int64", "uint64", "int32", "uint32", "uint8", "uint16", "int16", "int8", "uint", "mathint":
		v := arg(0)
		return &Val{T: mathInt, S: v.S, Math: true}
	}
	if p, ok := u.C.Preds[fname]; ok {
		if len(p.Params) != len(x.Args) {
			return e.fail("predicate %s expects %d arguments", fname, len(p.Params))
		}
		if p.Opaque {
			return e.opaquePred(p, x)
		}
		if e.depth > 12 {
			return e.fail("predicate expansion too deep at %s", fname)
		}
		vars := map[string]*Val{}
		for i, pd := range p.Params {
			v := arg(i)
			if pd.Type != "" {
				if t := e.lookupTypeIn(p.Pkg, pd.Type); t != nil && t != mathInt {
					if v.Place != nil && v.S == "" {
						v = &Val{T: t, Place: v.Place}
					} else {
						v = &Val{T: t, S: e.fr.termOf(v), Place: nil, Math: v.Math}
					}
				}
			}
			vars[pd.Name] = v
		}
		n := &SpecEnv{fr: e.fr, vars: vars, cur: e.cur, old: e.old, pkg: e.pkgOf(p.Pkg), errs: e.errs, depth: e.depth + 1,
			bound: e.bound, iterElem: e.iterElem, iterCount: e.iterCount, callArgs: e.callArgs, atCallSite: e.atCallSite, skip: e.skip, siteDominated: e.siteDominated, visited: e.visited}
		return n.eval(p.Body.Expr)
	}
	if sf, ok := u.C.Specs[fname]; ok {
		return e.applySpecFunc(sf, x)
	}
	// type conversion to a named type, e.g. ActorID(x)
	if t := e.lookupType(fname); t != nil && len(x.Args) == 1 {
		v := arg(0)
		return &Val{T: t, S: v.S, Math: v.Math}
	}
	return e.fail("unknown spec function %q", fname)
}

func (e *SpecEnv) pkgOf(path string) *types.Package {
	if p, ok := e.fr.u.P.ByPath[path]; ok {
		return p.Types
	}
	return e.pkg
}

func (e *SpecEnv) lookupTypeIn(pkgPath, name string) types.Type {
	n := *e
	n.pkg = e.pkgOf(pkgPath)
	return n.lookupType(name)
}

func (e *SpecEnv) applySpecFunc(sf *SpecFunc, x *ast.CallExpr) *Val {
	u := e.fr.u
	var args, sorts []string
	for i, a := range x.Args {
		v := e.eval(a)
		args = append(args, e.fr.termOf(v))
		so := "Int"
		if i < len(sf.Params) {
			if t := e.lookupTypeIn(sf.Pkg, sf.Params[i].Type); t != nil {
				so = e.sortOfType(t)
			} else if sf.Params[i].Type == "bool" {
				so = "Bool"
			}
		}
		sorts = append(sorts, so)
	}
	var rt types.Type = mathInt
	rs := "Int"
	if sf.Ret == "bool" {
		rt, rs = boolT, "Bool"
	} else if t := e.lookupTypeIn(sf.Pkg, sf.Ret); t != nil {
		rt = t
		rs = e.sortOfType(t)
	}
	name := "spec_" + sf.Name
	u.S.declareFun(name, sorts, rs)
	res := &Val{T: rt, S: app(name, args...), Math: rt == mathInt}
	if rt != mathInt && rt != boolT {
		// values of spec functions are well-formed values of their Go type
		if f := u.rangeFormula(res.S, rt, 0); f != "true" {
			if !strings.Contains(res.S, "q!") {
				u.assertOnce(f)
			} else {
				var binders []string
				for bv, so := range e.bound {
					if containsIdent(f, bv) {
						binders = append(binders, "("+bv+" "+so+")")
					}
				}
				if len(binders) > 0 {
					sortStrings(binders)
					u.assertOnce(fmt.Sprintf("(forall (%s) (! %s :pattern (%s)))", strings.Join(binders, " "), f, res.S))
				}
			}
		}
	}
	return res
}

func (e *SpecEnv) sortOfType(t types.Type) string {
	if t == mathInt {
		return "Int"
	}
	return e.fr.u.S.sortOf(t)
}

// quant handles forall(i, lo, hi, body) over integers and forall(T(k), body) over a type.
func (e *SpecEnv) quant(kind string, x0 *ast.CallExpr) *Val {
	u := e.fr.u
	// trailing trigger(e1, e2...) arguments give the instantiation patterns
	xc := *x0
	x := &xc
	var trigExprs [][]ast.Expr
	for len(x.Args) > 0 {
		ce, ok := x.Args[len(x.Args)-1].(*ast.CallExpr)
		if !ok || exprText(ce.Fun) != "trigger" {
			break
		}
		trigExprs = append(trigExprs, ce.Args)
		x.Args = x.Args[:len(x.Args)-1]
	}
	withPat := func(n *SpecEnv, body string) string {
		if len(trigExprs) == 0 {
			return body
		}
		var pats []string
		for _, tg := range trigExprs {
			var ts []string
			for _, t := range tg {
				ts = append(ts, n.fr.termOf(n.eval(t)))
			}
			pats = append(pats, ":pattern ("+strings.Join(ts, " ")+")")
		}
		return "(! " + body + " " + strings.Join(pats, " ") + ")"
	}
	if id0, isIdent := x.Args[0].(*ast.Ident); len(x.Args) == 4 && isIdent {
		id, ok := id0, true
		if !ok {
			return e.fail("%s: first argument must be an identifier", kind)
		}
		lo := e.eval(x.Args[1])
		hi := e.eval(x.Args[2])
		bv := "q!" + id.Name
		n := e.with(map[string]*Val{id.Name: {T: mathInt, S: bv, Math: true}})
		n.bound = map[string]string{bv: "Int"}
		for k, v := range e.bound {
			n.bound[k] = v
		}
		body := n.eval(x.Args[3])
		rng := fmt.Sprintf("(and (<= %s %s) (< %s %s))", lo.S, bv, bv, hi.S)
		if kind == "forall" {
			return &Val{T: boolT, S: fmt.Sprintf("(forall ((%s Int)) %s)", bv, withPat(n, "(=> "+rng+" "+body.S+")"))}
		}
		return &Val{T: boolT, S: fmt.Sprintf("(exists ((%s Int)) (and %s %s))", bv, rng, body.S)}
	}
	if len(x.Args) >= 2 {
		// one or more typed binders T(k) followed by the body
		vars := map[string]*Val{}
		var binders []string
		var guards []string
		for _, b := range x.Args[:len(x.Args)-1] {
			ce, ok := b.(*ast.CallExpr)
			if !ok || len(ce.Args) != 1 {
				return e.fail("%s: binder must be T(name)", kind)
			}
			id, ok := ce.Args[0].(*ast.Ident)
			if !ok {
				return e.fail("%s: binder must be T(name)", kind)
			}
			tname := exprText(ce.Fun)
			t := e.lookupType(tname)
			if t == nil {
				return e.fail("%s: unknown type %s", kind, tname)
			}
			bv := "q!" + id.Name
			so := e.sortOfType(t)
			binders = append(binders, fmt.Sprintf("(%s %s)", bv, so))
			vars[id.Name] = &Val{T: t, S: bv, Math: t == mathInt}
			if t != mathInt {
				if g := u.rangeFormula(bv, t, 0); g != "true" {
					guards = append(guards, g)
				}
			}
		}
		n := e.with(vars)
		n.bound = map[string]string{}
		for k, v := range e.bound {
			n.bound[k] = v
		}
		for _, v := range vars {
			n.bound[v.S] = e.sortOfType(v.T)
		}
		body := n.eval(x.Args[len(x.Args)-1])
		g := and(guards...)
		if kind == "forall" {
			return &Val{T: boolT, S: fmt.Sprintf("(forall (%s) %s)", strings.Join(binders, " "), withPat(n, implies(g, body.S)))}
		}
		return &Val{T: boolT, S: fmt.Sprintf("(exists (%s) %s)", strings.Join(binders, " "), and(g, body.S))}
	}
	return e.fail("%s: wrong number of arguments", kind)
}

func exprText2(x ast.Expr) string {
	if l, ok := x.(*ast.BasicLit); ok {
		return l.Value
	}
	return exprText(x)
}

// opaquePred applies an uninterpreted symbol and (once per unit) asserts its tagged definition.
func (e *SpecEnv) opaquePred(p *PredDef, x *ast.CallExpr) *Val {
	u := e.fr.u
	name := "pred_" + p.Name
	var sorts, args []string
	for i, pd := range p.Params {
		so := "Int"
		if t := e.lookupTypeIn(p.Pkg, pd.Type); t != nil {
			so = e.sortOfType(t)
		} else if pd.Type == "bool" {
			so = "Bool"
		}
		sorts = append(sorts, so)
		args = append(args, e.fr.termOf(e.eval(x.Args[i])))
	}
	if !u.specDecl[name] {
		u.specDecl[name] = true
		u.S.declareFun(name, sorts, "Bool")
		vars := map[string]*Val{}
		var binders, bvs []string
		for i, pd := range p.Params {
			bv := "q!" + pd.Name
			var t types.Type = mathInt
			if tt := e.lookupTypeIn(p.Pkg, pd.Type); tt != nil {
				t = tt
			}
			vars[pd.Name] = &Val{T: t, S: bv, Math: t == mathInt}
			binders = append(binders, fmt.Sprintf("(%s %s)", bv, sorts[i]))
			bvs = append(bvs, bv)
		}
		n := &SpecEnv{fr: e.fr, vars: vars, cur: e.cur, old: e.old, pkg: e.pkgOf(p.Pkg), errs: e.errs, depth: e.depth + 1}
		body := n.eval(p.Body.Expr).S
		def := fmt.Sprintf("(forall (%s) (! (= %s %s) :pattern (%s)))", strings.Join(binders, " "), app(name, bvs...), body, app(name, bvs...))
		u.defs = append(u.defs, taggedDef{pred: p.Name, formula: def})
	}
	return &Val{T: boolT, S: app(name, args...)}
}

// containsIdent: the SMT symbol id occurs in s as a whole token.
func containsIdent(s, id string) bool {
	for i := 0; ; {
		j := strings.Index(s[i:], id)
		if j < 0 {
			return false
		}
		end := i + j + len(id)
		if end >= len(s) || strings.ContainsRune(" )", rune(s[end])) {
			return true
		}
		i = end
	}
}
