package main

import (
	"bytes"
	"encoding/json"
	"fmt"
	"go/types"
	"os"
	"os/exec"
	"path/filepath"
	"strings"
)

// ReplayInfo says how to call the real function with the values of a counterexample.
type ReplayInfo struct {
	PkgPath string
	Func    string // plain function name (no receiver) — only these are replayed automatically
	Params  []replayVar
	Results []replayVar
}

type replayVar struct {
	Name string
	Type string // Go type text usable inside the package
	Term string
	Kind string // int | bool
}

func basicKind(t types.Type) string {
	b, ok := types.Unalias(t).Underlying().(*types.Basic)
	if !ok {
		return ""
	}
	switch {
	case b.Info()&types.IsInteger != 0:
		return "int"
	case b.Info()&types.IsBoolean != 0:
		return "bool"
	}
	return ""
}

// ---- s-expression parsing of (get-value ...) output ----

type sexpr struct {
	atom string
	list []*sexpr
}

func parseSexprs(s string) []*sexpr {
	var toks []string
	i := 0
	for i < len(s) {
		c := s[i]
		switch {
		case c == '(' || c == ')':
			toks = append(toks, string(c))
			i++
		case c == '|':
			j := strings.IndexByte(s[i+1:], '|')
			if j < 0 {
				j = len(s) - i - 2
			}
			toks = append(toks, s[i:i+j+2])
			i += j + 2
		case c == ' ' || c == '\n' || c == '\t' || c == '\r':
			i++
		case c == '"':
			j := strings.IndexByte(s[i+1:], '"')
			if j < 0 {
				j = len(s) - i - 2
			}
			toks = append(toks, s[i:i+j+2])
			i += j + 2
		default:
			j := i
			for j < len(s) && !strings.ContainsRune("() \n\t\r", rune(s[j])) {
				j++
			}
			toks = append(toks, s[i:j])
			i = j
		}
	}
	pos := 0
	var parse func() *sexpr
	parse = func() *sexpr {
		if pos >= len(toks) {
			return nil
		}
		t := toks[pos]
		pos++
		if t == "(" {
			n := &sexpr{}
			for pos < len(toks) && toks[pos] != ")" {
				n.list = append(n.list, parse())
			}
			pos++
			return n
		}
		return &sexpr{atom: t}
	}
	var res []*sexpr
	for pos < len(toks) {
		if toks[pos] == ")" {
			pos++
			continue
		}
		res = append(res, parse())
	}
	return res
}

func (s *sexpr) String() string {
	if s == nil {
		return ""
	}
	if s.list == nil && s.atom != "" {
		return s.atom
	}
	var parts []string
	for _, x := range s.list {
		parts = append(parts, x.String())
	}
	return "(" + strings.Join(parts, " ") + ")"
}

// modelValues extracts term -> value text from solver output of the form "sat\n((t v) (t v))".
func modelValues(out string) map[string]string {
	res := map[string]string{}
	idx := strings.Index(out, "\n")
	if idx < 0 {
		return res
	}
	for _, e := range parseSexprs(out[idx+1:]) {
		if e == nil {
			continue
		}
		for _, p := range e.list {
			if p != nil && len(p.list) == 2 {
				res[strings.Trim(p.list[0].String(), "|")] = p.list[1].String()
			}
		}
	}
	return res
}

func smtIntToGo(v string) (string, bool) {
	v = strings.TrimSpace(v)
	if strings.HasPrefix(v, "(-") {
		inner := strings.TrimSpace(strings.TrimSuffix(strings.TrimPrefix(v, "(-"), ")"))
		if _, ok := smtIntToGo(inner); !ok {
			return "", false
		}
		return "-" + inner, true
	}
	for _, c := range v {
		if c < '0' || c > '9' {
			return "", false
		}
	}
	return v, v != ""
}

// tryReplay runs the counterexample of a failed obligation against the real code when the function's
// inputs and outputs are all scalars. It reports whether the real code reproduced the model.
func tryReplay(o *Obligation) (bool, map[string]any) {
	note := map[string]any{}
	if o.RInfo == nil && o.Harness != "" {
		// hand-written harness for this function: runs the real code on a fixed scenario and checks the clause
		src, err := os.ReadFile(filepath.Join(verifDir(), o.Harness))
		if err != nil {
			note["status"] = "harness missing: " + err.Error()
			return false, note
		}
		note["test"] = string(src)
		note["package"] = o.HarnessPkg
		note["harness"] = o.Harness
		out, err := runOverlayTest(o.HarnessPkg, string(src))
		note["output"] = truncate(out, 3000)
		if err != nil {
			note["status"] = "harness could not be run: " + err.Error()
			return false, note
		}
		if strings.Contains(out, "REPLAY-CONFIRMED") {
			note["status"] = "confirmed by the replay harness on the real code (fixed scenario, not the solver's model)"
			return true, note
		}
		note["status"] = "the replay harness did not reproduce a violation"
		return false, note
	}
	if o.RInfo == nil || o.Model == "" {
		note["status"] = "no counterexample that can be projected onto the function's inputs"
		return false, note
	}
	vals := modelValues(o.Model)
	ri := o.RInfo
	var args []string
	inputs := map[string]string{}
	for _, p := range ri.Params {
		v, ok := vals[strings.Trim(p.Term, "|")]
		if !ok {
			note["status"] = "model lacks a value for " + p.Name
			return false, note
		}
		switch p.Kind {
		case "int":
			g, ok := smtIntToGo(v)
			if !ok {
				note["status"] = "unparsable model value " + v
				return false, note
			}
			args = append(args, fmt.Sprintf("%s(%s)", p.Type, g))
			inputs[p.Name] = g
		case "bool":
			args = append(args, v)
			inputs[p.Name] = v
		}
	}
	note["inputs"] = inputs
	var pred []string
	predicted := map[string]string{}
	for _, r := range ri.Results {
		v, ok := vals[strings.Trim(r.Term, "|")]
		if !ok {
			continue
		}
		g := v
		if r.Kind == "int" {
			g, _ = smtIntToGo(v)
			g = fmt.Sprintf("%s(%s)", r.Type, g)
		}
		pred = append(pred, g)
		predicted[r.Name] = v
	}
	note["predicted_results"] = predicted
	var b bytes.Buffer
	pkgName := filepath.Base(ri.PkgPath)
	if ri.PkgPath == modPath {
		pkgName = "f3"
	}
	fmt.Fprintf(&b, "package %s\n\nimport (\n\t\"fmt\"\n\t\"testing\"\n)\n\n", pkgName)
	fmt.Fprintf(&b, "func TestVerifReplay(t *testing.T) {\n")
	fmt.Fprintf(&b, "\tdefer func() {\n\t\tif r := recover(); r != nil {\n\t\t\tfmt.Printf(\"REPLAY-PANIC %%v\\n\", r)\n\t\t}\n\t}()\n")
	var lhs []string
	for i := range ri.Results {
		lhs = append(lhs, fmt.Sprintf("r%d", i))
	}
	call := fmt.Sprintf("%s(%s)", ri.Func, strings.Join(args, ", "))
	if len(lhs) > 0 {
		fmt.Fprintf(&b, "\t%s := %s\n", strings.Join(lhs, ", "), call)
		fmt.Fprintf(&b, "\tfmt.Printf(\"REPLAY-REAL %s\\n\", %s)\n", strings.Repeat("%v ", len(lhs)), strings.Join(lhs, ", "))
		if len(pred) == len(lhs) {
			var conds []string
			for i := range lhs {
				conds = append(conds, fmt.Sprintf("r%d == %s", i, pred[i]))
			}
			fmt.Fprintf(&b, "\tif %s {\n\t\tfmt.Println(\"REPLAY-MATCHES-MODEL\")\n\t}\n", strings.Join(conds, " && "))
		}
	} else {
		fmt.Fprintf(&b, "\t%s\n", call)
	}
	fmt.Fprintf(&b, "\tfmt.Println(\"REPLAY-RETURNED\")\n}\n")
	note["test"] = b.String()
	note["package"] = ri.PkgPath
	out, err := runOverlayTest(ri.PkgPath, b.String())
	note["output"] = truncate(out, 3000)
	if err != nil {
		note["status"] = "replay could not be run: " + err.Error()
	}
	switch o.Kind {
	case "panic":
		if strings.Contains(out, "REPLAY-PANIC") {
			note["status"] = "confirmed: the real function panics on these inputs"
			return true, note
		}
	default:
		if strings.Contains(out, "REPLAY-MATCHES-MODEL") {
			note["status"] = "confirmed: the real function returns the values of the counterexample, for which the clause is false"
			return true, note
		}
	}
	if _, ok := note["status"]; !ok {
		note["status"] = "the real function did not reproduce the counterexample"
	}
	return false, note
}

// runOverlayTest injects an in-package test through go test -overlay (nothing is written to /repo).
func runOverlayTest(pkgPath, src string) (string, error) {
	return runOverlayTestNamed(pkgPath, src, "^TestVerifReplay$", "60s")
}

func runOverlayTestNamed(pkgPath, src, runPat, timeout string) (string, error) {
	dir, err := os.MkdirTemp("", "govc-replay-*")
	if err != nil {
		return "", err
	}
	defer os.RemoveAll(dir)
	rel := strings.TrimPrefix(strings.TrimPrefix(pkgPath, modPath), "/")
	testFile := filepath.Join(dir, "zz_verif_replay_test.go")
	if err := os.WriteFile(testFile, []byte(src), 0o644); err != nil {
		return "", err
	}
	target := filepath.Join(repoDir(), rel, "zz_verif_replay_test.go")
	ov, _ := json.Marshal(map[string]any{"Replace": map[string]string{target: testFile}})
	ovFile := filepath.Join(dir, "ov.json")
	os.WriteFile(ovFile, ov, 0o644)
	pkgArg := "./" + rel
	if rel == "" {
		pkgArg = "."
	}
	cmd := exec.Command("go", "test", "-mod=mod", "-overlay", ovFile, "-vet=off", "-timeout", timeout, "-count=1", "-run", runPat, "-v", pkgArg)
	cmd.Dir = repoDir()
	cmd.Env = append(os.Environ(), "GOFLAGS=-mod=mod", "GOPROXY=off")
	var out bytes.Buffer
	cmd.Stdout = &out
	cmd.Stderr = &out
	err = cmd.Run()
	if err != nil && (!strings.Contains(out.String(), "REPLAY-") || runPat != "^TestVerifReplay$") {
		return out.String(), err
	}
	return out.String(), nil
}

func cmdReplay(args []string) int {
	if len(args) < 1 {
		usage()
	}
	data, err := os.ReadFile(args[0])
	if err != nil {
		fmt.Fprintln(os.Stderr, err)
		return 2
	}
	var rep map[string]any
	if err := json.Unmarshal(data, &rep); err != nil {
		fmt.Fprintln(os.Stderr, err)
		return 2
	}
	fmt.Printf("obligation: %v\nwhat: %v\nsolver: %v\n", rep["obligation"], rep["what"], rep["solver"])
	r, _ := rep["replay"].(map[string]any)
	if r == nil || r["test"] == nil {
		fmt.Println("no executable replay recorded for this obligation; solver output follows")
		fmt.Println(rep["solver_output"])
		return 1
	}
	out, err := runOverlayTest(fmt.Sprint(r["package"]), fmt.Sprint(r["test"]))
	fmt.Println(out)
	if err != nil {
		fmt.Fprintln(os.Stderr, err)
		return 2
	}
	if strings.Contains(out, "REPLAY-MATCHES-MODEL") || strings.Contains(out, "REPLAY-PANIC") || strings.Contains(out, "REPLAY-CONFIRMED") {
		fmt.Println("violation reproduced on the real code")
		return 1
	}
	return 0
}

// runBounded runs the bounded stand-ins registered for the property in /verif/harness/bounded.json: in-package tests
// injected through go test -overlay, so they execute the functions of /repo's working tree. They are labelled bounded
// in the evidence and never counted among the discharged obligations; a failing one is a violation with its output.
func runBounded(prop, tier string) []boundedResult {
	data, err := os.ReadFile(filepath.Join(verifDir(), "harness", "bounded.json"))
	if err != nil {
		return nil
	}
	var table []struct {
		Property, Name, Pkg, File, Bound, What string
	}
	if json.Unmarshal(data, &table) != nil {
		return nil
	}
	var res []boundedResult
	for _, b := range table {
		if b.Property != prop {
			continue
		}
		r := boundedResult{Name: b.Name, Desc: b.What + " — bound: " + b.Bound}
		src, err := os.ReadFile(filepath.Join(verifDir(), b.File))
		if err != nil {
			r.Output = "harness missing: " + err.Error()
			res = append(res, r)
			continue
		}
		pkgPath := modPath
		if b.Pkg != "" {
			pkgPath = modPath + "/" + b.Pkg
		}
		out, err := runOverlayTestNamed(pkgPath, string(src), "^TestVerifBounded$", "300s")
		r.Output = truncate(out, 4000)
		for _, ln := range strings.Split(out, "\n") {
			if strings.HasPrefix(ln, "BOUNDED-CASES ") {
				fmt.Sscanf(strings.TrimPrefix(ln, "BOUNDED-CASES "), "%d", &r.Cases)
			}
		}
		r.OK = err == nil && r.Cases > 0 && !strings.Contains(out, "BOUNDED-FAIL") && !strings.Contains(out, "--- FAIL") && strings.HasPrefix(lastLine(out), "ok")
		res = append(res, r)
	}
	return res
}

func lastLine(s string) string {
	ls := strings.Split(strings.TrimSpace(s), "\n")
	return ls[len(ls)-1]
}


