package polling

import (
	"fmt"
	"context"
	"math/rand"
	"testing"
	"time"

	"github.com/filecoin-project/go-f3/certexchange"
	"github.com/filecoin-project/go-f3/certstore"
	"github.com/filecoin-project/go-f3/internal/clock"
	"github.com/filecoin-project/go-f3/sim/signing"
	"github.com/ipfs/go-datastore"
	ds_sync "github.com/ipfs/go-datastore/sync"
	mocknetwork "github.com/libp2p/go-libp2p/p2p/net/mock"
)

func TestVerifReplay(t *testing.T) {
	backend := signing.NewFakeBackend()
	rng := rand.New(rand.NewSource(1234))
	cg := MakeCertificates(t, rng, backend)
	ctx, cancel := context.WithCancel(context.Background())
	defer cancel()
	ctx, clk := clock.WithMockClock(ctx)
	_ = clk
	mocknet := mocknetwork.New()
	clientHost, _ := mocknet.GenPeer()
	serverHost, _ := mocknet.GenPeer()
	sds := ds_sync.MutexWrap(datastore.NewMapDatastore())
	scs, err := certstore.CreateStore(ctx, sds, 0, cg.PowerTable)
	if err != nil {
		t.Fatal(err)
	}
	server := &certexchange.Server{NetworkName: TestNetworkName, Host: serverHost, Store: scs}
	if err := mocknet.LinkAll(); err != nil {
		t.Fatal(err)
	}
	if err := server.Start(ctx); err != nil {
		t.Fatal(err)
	}
	defer server.Stop(context.Background())
	if err := mocknet.ConnectAllButSelf(); err != nil {
		t.Fatal(err)
	}
	for i := 0; i < 3; i++ {
		if err := scs.Put(ctx, cg.MakeCertificate()); err != nil {
			t.Fatal(err)
		}
	}
	cds := ds_sync.MutexWrap(datastore.NewMapDatastore())
	ccs, _ := certstore.CreateStore(ctx, cds, 0, cg.PowerTable)
	s := &Subscriber{
		Client:              certexchange.Client{Host: clientHost, NetworkName: TestNetworkName},
		Store:               ccs,
		SignatureVerifier:   backend,
		MinimumPollInterval: time.Millisecond, MaximumPollInterval: time.Second, InitialPollInterval: 100 * time.Millisecond,
	}
	s.clock = clock.GetClock(ctx)
	s.peerTracker = newPeerTracker(s.clock)
	s.poller, err = NewPoller(ctx, &s.Client, s.Store, s.SignatureVerifier)
	if err != nil {
		t.Fatal(err)
	}
	s.peerTracker.peerSeen(serverHost.ID())
	before := s.poller.NextInstance
	progress, newCert, err := s.poll(ctx)
	after := s.poller.NextInstance
	t.Logf("NextInstance %d -> %d ; poll() progress=%d (as int64 %d) newCert=%v err=%v", before, after, progress, int64(progress), newCert, err)
	if progress != after-before {
		fmt.Printf("REPLAY-CONFIRMED poll() reported progress %d but the store advanced by %d instances (%d -> %d)\n", progress, after-before, before, after)
	} else {
		fmt.Println("REPLAY-NOT-REPRODUCED")
	}
}

