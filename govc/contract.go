package main

import (
	"bytes"
	"fmt"
	"go/ast"
	"go/parser"
	"os"
	"path/filepath"
	"sort"
	"strings"
)

// Clause is one requires/ensures/invariant/assert expression.
type Clause struct {
	Label string
	Text  string
	Expr  ast.Expr
	Line  int
	File  string
	// Assumed: a loop "assume" — asserted at the loop head without proof (definitions of spec functions over
	// locals the precondition cannot name); listed as an assumption.
	Assumed bool
}

type LoopSpec struct {
	Ordinal    int
	Invariants []*Clause
	Decreases  *Clause
}

// CallSpec attaches asserts/assumes (ghost reasoning) to the n-th call of a callee inside a function.
type CallSpec struct {
	Callee  string
	Ordinal int
	Before  []*Clause // assert before call
	After   []*Clause // assert after call
	Assume  []*Clause // ghost definitions assumed after the call (listed as assumptions)
	Hit     bool
}

type FuncContract struct {
	Pkg        string // package path the contract file belongs to
	Name       string // as written
	Key        string // resolved function key
	Props      []string
	Results    []string
	Requires   []*Clause
	Ensures    []*Clause
	Assumes    []*Clause // post-assumptions: used by callers, NOT proved (listed as assumptions in evidence)
	Modifies   []*Clause
	ModAll     bool // "modifies *"
	ModAuto    bool // "modifies auto": the inferred may-write set of the function
	HasMod     bool
	NoOverflow bool
	Trusted    bool
	TrustNote  string
	Loops      map[int]*LoopSpec
	Iters      map[int]*LoopSpec // invariants of iterator calls (BitField.ForEach(closure) ...), by ordinal
	Calls      []*CallSpec
	Asserts    []*Clause // not used yet
	MayPanic   bool      // do not generate explicit-panic obligations
	MayPanicBounds string // non-empty: no bounds obligations either (reason; listed as an assumption)
	CheckNil   bool
	Pure       bool // no heap effects (trusted contracts)
	File       string
	Line       int
	Opaque     []string // callee names to treat as havoc even if inlinable
	NoInline   bool
	InlineAtCalls bool // "inlined": proved against its contract, yet inlined at call sites (helpers whose callers were verified with the body)
	Bounded    string
	Hide       [][2]string // (predicate, obligation substring): definition withheld from those obligations
	Harness    string // hand-written replay harness (path under /verif) demonstrating a violation on the real code
}

type PredDef struct {
	Opaque bool // uninterpreted symbol + definitional axiom that single obligations may hide
	Name   string
	Params []paramDecl
	Body   *Clause
	Pkg    string
}

type paramDecl struct {
	Name string
	Type string // Go type expression text
}

type SpecFunc struct {
	Name   string
	Params []paramDecl
	Ret    string
	Pkg    string
}

type Axiom struct {
	Name  string
	Body  *Clause
	Pkg   string
	Props []string
}

type LemmaStep struct {
	Kind   string // "call", "assume", "assert"
	Clause *Clause
	// for call: results = callee(args)
	Results []string
	Callee  string
	Args    []ast.Expr
}

type Lemma struct {
	Name  string
	Pkg   string
	Props []string
	Vars  []paramDecl
	Steps []*LemmaStep
	File  string
	Line  int
}

// Structural is a purely syntactic obligation over the loaded program (e.g. "function F has no callers").
type Structural struct {
	Kind   string
	Target string
	Pkg    string
	Props  []string
	Why    string
	Allowed []string // storesonly: the functions that may store to the field
}

type Contracts struct {
	Structurals []*Structural
	Funcs   map[string]*FuncContract // by key as written (pkg-qualified)
	Order   []*FuncContract
	Preds   map[string]*PredDef
	Specs   map[string]*SpecFunc
	Axioms  []*Axiom
	Lemmas  []*Lemma
	Files   []string
	Problems []string
}

var clauseKeywords = map[string]bool{
	"func": true, "property": true, "requires": true, "ensures": true, "modifies": true,
	"nooverflow": true, "trusted": true, "loop": true, "invariant": true, "decreases": true,
	"results": true, "pred": true, "spec": true, "axiom": true, "lemma": true, "vars": true,
	"call": true, "assume": true, "assert": true, "maypanic": true, "checknil": true, "pure": true,
	"opaque": true, "noinline": true, "inlined": true, "harness": true, "hide": true, "iter": true, "assumes": true, "structural": true, "bounded": true, "note": true, "at": true, "before": true, "after": true,
}

// rewriteImplies turns "a ==> b" into "implies(a, b)" at every parenthesis level (right associative,
// lowest precedence).
func rewriteImplies(s string) string {
	// find matching structure recursively
	var out bytes.Buffer
	// split current level by top-level commas, handle ==> in each piece
	pieces := splitTop(s, ',')
	for i, p := range pieces {
		if i > 0 {
			out.WriteString(",")
		}
		out.WriteString(rewriteImpliesPiece(p))
	}
	return out.String()
}

func rewriteImpliesPiece(p string) string {
	// top-level "==>" split
	idx := indexTop(p, "==>")
	if idx >= 0 {
		l := p[:idx]
		r := p[idx+3:]
		return "implies(" + rewriteImpliesPiece(l) + ", " + rewriteImpliesPiece(r) + ")"
	}
	// recurse into parentheses/brackets
	var out bytes.Buffer
	i := 0
	for i < len(p) {
		c := p[i]
		if c == '"' {
			j := i + 1
			for j < len(p) && p[j] != '"' {
				if p[j] == '\\' {
					j++
				}
				j++
			}
			out.WriteString(p[i:min(j+1, len(p))])
			i = j + 1
			continue
		}
		if c == '(' || c == '[' {
			close := byte(')')
			if c == '[' {
				close = ']'
			}
			d := 0
			j := i
			for ; j < len(p); j++ {
				if p[j] == c {
					d++
				} else if p[j] == close {
					d--
					if d == 0 {
						break
					}
				}
			}
			if j >= len(p) {
				out.WriteString(p[i:])
				return out.String()
			}
			out.WriteByte(c)
			out.WriteString(rewriteImplies(p[i+1 : j]))
			out.WriteByte(close)
			i = j + 1
			continue
		}
		out.WriteByte(c)
		i++
	}
	return out.String()
}

func splitTop(s string, sep byte) []string {
	var res []string
	d := 0
	last := 0
	inStr := false
	for i := 0; i < len(s); i++ {
		c := s[i]
		if inStr {
			if c == '\\' {
				i++
			} else if c == '"' {
				inStr = false
			}
			continue
		}
		switch c {
		case '"':
			inStr = true
		case '(', '[', '{':
			d++
		case ')', ']', '}':
			d--
		default:
			if c == sep && d == 0 {
				res = append(res, s[last:i])
				last = i + 1
			}
		}
	}
	res = append(res, s[last:])
	return res
}

func indexTop(s, pat string) int {
	d := 0
	inStr := false
	for i := 0; i < len(s); i++ {
		c := s[i]
		if inStr {
			if c == '\\' {
				i++
			} else if c == '"' {
				inStr = false
			}
			continue
		}
		switch c {
		case '"':
			inStr = true
		case '(', '[', '{':
			d++
		case ')', ']', '}':
			d--
		}
		if d == 0 && strings.HasPrefix(s[i:], pat) {
			return i
		}
	}
	return -1
}

func parseSpecExpr(text string) (ast.Expr, error) {
	t := rewriteImplies(text)
	e, err := parser.ParseExpr(t)
	if err != nil {
		return nil, fmt.Errorf("%v in %q", err, t)
	}
	return e, nil
}

func parseParams(s string) []paramDecl {
	s = strings.TrimSpace(s)
	if s == "" {
		return nil
	}
	var res []paramDecl
	for _, p := range splitTop(s, ',') {
		p = strings.TrimSpace(p)
		i := strings.IndexAny(p, " \t")
		if i < 0 {
			res = append(res, paramDecl{Name: p})
			continue
		}
		res = append(res, paramDecl{Name: p[:i], Type: strings.TrimSpace(p[i+1:])})
	}
	// Go-style "a, b int": propagate types backwards
	for i := len(res) - 2; i >= 0; i-- {
		if res[i].Type == "" {
			res[i].Type = res[i+1].Type
		}
	}
	return res
}

type rawLine struct {
	text string
	line int
}

// contractFilesFor returns the contract file to use for every package directory that has one,
// preferring /repo/<pkg>/zz_verif_contracts.go and falling back to /verif/contracts/<pkg>/zz_verif_contracts.go.
func contractFiles() (map[string]string, []string) {
	res := map[string]string{}
	var problems []string
	mirror := mirrorDir()
	_ = filepath.Walk(mirror, func(path string, info os.FileInfo, err error) error {
		if err != nil || info.IsDir() || filepath.Base(path) != "zz_verif_contracts.go" {
			return nil
		}
		rel, _ := filepath.Rel(mirror, filepath.Dir(path))
		res[rel] = path
		return nil
	})
	for rel, mpath := range res {
		rpath := filepath.Join(repoDir(), rel, "zz_verif_contracts.go")
		rb, err := os.ReadFile(rpath)
		if err != nil {
			continue // use mirror
		}
		mb, _ := os.ReadFile(mpath)
		if os.Getenv("VERIF_REPO") != "" {
			// a scratch copy of the repository (self-test, mutation runs) carries its own contract files: they are
			// what that copy is checked against, whatever the mirror looks like by now
			res[rel] = rpath
			continue
		}
		if !bytes.Equal(rb, mb) {
			problems = append(problems, fmt.Sprintf("contract file %s differs from its mirror %s (run /verif/sync_contracts.sh)", rpath, mpath))
			continue // development: the mirror is what is being edited; "check" refuses to run on a mismatch
		}
		res[rel] = rpath
	}
	return res, problems
}

func mirrorDir() string {
	if d := os.Getenv("VERIF_CONTRACTS"); d != "" {
		return d
	}
	return "/verif/contracts"
}

func loadContracts() (*Contracts, error) {
	C := &Contracts{Funcs: map[string]*FuncContract{}, Preds: map[string]*PredDef{}, Specs: map[string]*SpecFunc{}}
	files, problems := contractFiles()
	C.Problems = problems
	var rels []string
	for r := range files {
		rels = append(rels, r)
	}
	sort.Strings(rels)
	for _, rel := range rels {
		path := files[rel]
		pkgPath := modPath
		if rel != "." {
			pkgPath = modPath + "/" + filepath.ToSlash(rel)
		}
		if err := C.parseFile(path, pkgPath); err != nil {
			return nil, err
		}
		C.Files = append(C.Files, path)
	}
	return C, nil
}

func (C *Contracts) parseFile(path, pkgPath string) error {
	data, err := os.ReadFile(path)
	if err != nil {
		return err
	}
	var lines []rawLine
	for i, l := range strings.Split(string(data), "\n") {
		t := strings.TrimSpace(l)
		if !strings.HasPrefix(t, "//@") {
			continue
		}
		t = strings.TrimPrefix(t, "//@")
		if j := strings.Index(t, " //"); j >= 0 {
			t = t[:j]
		}
		t = strings.TrimSpace(t)
		if t == "" {
			continue
		}
		lines = append(lines, rawLine{t, i + 1})
	}
	// join continuation lines
	var joined []rawLine
	for _, l := range lines {
		kw := firstWord(l.text)
		if clauseKeywords[kw] || len(joined) == 0 {
			joined = append(joined, l)
		} else {
			joined[len(joined)-1].text += " " + l.text
		}
	}
	var curF *FuncContract
	var curLoop *LoopSpec
	var curLemma *Lemma
	var curCall *CallSpec
	var curAxiom *Axiom
	var curStruct *Structural
	mk := func(text string, line int) (*Clause, error) {
		label := ""
		text = strings.TrimSpace(text)
		if strings.HasPrefix(text, "[") {
			j := strings.Index(text, "]")
			label = text[1:j]
			text = strings.TrimSpace(text[j+1:])
		}
		e, err := parseSpecExpr(text)
		if err != nil {
			return nil, fmt.Errorf("%s:%d: %v", path, line, err)
		}
		return &Clause{Label: label, Text: text, Expr: e, Line: line, File: path}, nil
	}
	for _, l := range joined {
		kw := firstWord(l.text)
		rest := strings.TrimSpace(strings.TrimPrefix(l.text, kw))
		// clause label directly after keyword: ensures[label]
		if strings.HasPrefix(l.text, kw+"[") {
			rest = strings.TrimSpace(l.text[len(kw):])
		}
		switch kw {
		case "func":
			name := rest
			curStruct = nil
			curF = &FuncContract{Pkg: pkgPath, Name: name, Loops: map[int]*LoopSpec{}, Iters: map[int]*LoopSpec{}, File: path, Line: l.line}
			key := name
			if !strings.Contains(name, "/") && !isExternalName(name) {
				key = pkgPath + "." + name
			}
			curF.Key = key
			if _, dup := C.Funcs[key]; dup {
				return fmt.Errorf("%s:%d: duplicate contract for %s", path, l.line, key)
			}
			C.Funcs[key] = curF
			C.Order = append(C.Order, curF)
			curLoop, curLemma, curCall, curAxiom = nil, nil, nil, nil
		case "property":
			ps := strings.FieldsFunc(rest, func(r rune) bool { return r == ',' || r == ' ' })
			switch {
			case curStruct != nil:
				curStruct.Props = append(curStruct.Props, ps...)
			case curLemma != nil:
				curLemma.Props = append(curLemma.Props, ps...)
			case curAxiom != nil:
				curAxiom.Props = append(curAxiom.Props, ps...)
			case curF != nil:
				curF.Props = append(curF.Props, ps...)
			}
		case "results":
			for _, r := range strings.Split(rest, ",") {
				curF.Results = append(curF.Results, strings.TrimSpace(r))
			}
		case "assumes":
			c, err := mk(rest, l.line)
			if err != nil {
				return err
			}
			curF.Assumes = append(curF.Assumes, c)
		case "requires", "ensures", "invariant", "decreases", "assume", "assert", "before", "after":
			c, err := mk(rest, l.line)
			if err != nil {
				return err
			}
			switch kw {
			case "requires":
				curF.Requires = append(curF.Requires, c)
			case "ensures":
				curF.Ensures = append(curF.Ensures, c)
			case "invariant":
				if curLoop == nil {
					return fmt.Errorf("%s:%d: invariant outside loop block", path, l.line)
				}
				curLoop.Invariants = append(curLoop.Invariants, c)
			case "decreases":
				if curLoop == nil {
					return fmt.Errorf("%s:%d: decreases outside loop block", path, l.line)
				}
				curLoop.Decreases = c
			case "assume", "assert":
				if curLemma == nil && kw == "assume" && curCall != nil {
					curCall.Assume = append(curCall.Assume, c)
					break
				}
				if curLemma == nil && kw == "assume" && curLoop != nil {
					c.Assumed = true
					curLoop.Invariants = append(curLoop.Invariants, c)
					break
				}
				if curLemma == nil {
					return fmt.Errorf("%s:%d: %s outside lemma", path, l.line, kw)
				}
				curLemma.Steps = append(curLemma.Steps, &LemmaStep{Kind: kw, Clause: c})
			case "before":
				curCall.Before = append(curCall.Before, c)
			case "after":
				curCall.After = append(curCall.After, c)
			}
		case "modifies":
			curF.HasMod = true
			if rest == "*" {
				curF.ModAll = true
				break
			}
			if rest == "auto" {
				curF.ModAuto = true
				break
			}
			if rest == "nothing" || rest == "" {
				break
			}
			for _, m := range splitTop(rest, ',') {
				m = strings.TrimSpace(m)
				if _, err := parseSpecExpr(strings.TrimSuffix(m, "[]")); err != nil {
					return fmt.Errorf("%s:%d: %v", path, l.line, err)
				}
				curF.Modifies = append(curF.Modifies, &Clause{Text: m, Line: l.line, File: path})
			}
		case "nooverflow":
			curF.NoOverflow = true
		case "trusted":
			curF.Trusted = true
			curF.TrustNote = rest
		case "maypanic":
			curF.MayPanic = true
			if strings.HasPrefix(rest, "bounds") {
				// "maypanic bounds <why>": index / slice / makeslice panics are not obligations of this contract either
				curF.MayPanicBounds = strings.TrimSpace(strings.TrimPrefix(rest, "bounds"))
				if curF.MayPanicBounds == "" {
					curF.MayPanicBounds = "not checked"
				}
			}
		case "checknil":
			curF.CheckNil = true
		case "pure":
			curF.Pure = true
			curF.HasMod = true
		case "noinline":
			curF.NoInline = true
		case "inlined":
			// the postconditions are proved on the body, but callers keep inlining the (small) body instead of using them
			curF.InlineAtCalls = true
		case "opaque":
			for _, r := range strings.Split(rest, ",") {
				curF.Opaque = append(curF.Opaque, strings.TrimSpace(r))
			}
		case "bounded":
			curF.Bounded = rest
		case "harness":
			curF.Harness = rest
		case "hide":
			f := strings.Fields(rest)
			for _, ob := range f[1:] {
				curF.Hide = append(curF.Hide, [2]string{f[0], strings.Trim(ob, ",")})
			}
		case "note":
		case "loop":
			var n int
			fmt.Sscanf(rest, "%d", &n)
			curLoop = &LoopSpec{Ordinal: n}
			curCall = nil
			curF.Loops[n] = curLoop
		case "iter":
			var n int
			fmt.Sscanf(rest, "%d", &n)
			curLoop = &LoopSpec{Ordinal: n}
			curCall = nil
			curF.Iters[n] = curLoop
		case "at":
			// at <callee> <n>
			var callee string
			var n int
			fmt.Sscanf(rest, "%s %d", &callee, &n)
			curCall = &CallSpec{Callee: callee, Ordinal: n}
			curLoop = nil
			curF.Calls = append(curF.Calls, curCall)
		case "pred":
			// pred name(params) = expr
			eqi := indexTop(rest, "=")
			// find first '=' that is not part of ==, <=, >=, !=
			for eqi >= 0 {
				if eqi+1 < len(rest) && rest[eqi+1] == '=' || eqi > 0 && strings.ContainsRune("<>!=", rune(rest[eqi-1])) {
					n := indexTop(rest[eqi+2:], "=")
					if n < 0 {
						eqi = -1
					} else {
						eqi = eqi + 2 + n
					}
					continue
				}
				break
			}
			if eqi < 0 {
				return fmt.Errorf("%s:%d: pred needs '= body'", path, l.line)
			}
			head := strings.TrimSpace(rest[:eqi])
			body := rest[eqi+1:]
			opaquePred := false
			if strings.HasPrefix(head, "opaque ") {
				opaquePred = true
				head = strings.TrimSpace(strings.TrimPrefix(head, "opaque "))
			}
			op := strings.Index(head, "(")
			name := strings.TrimSpace(head[:op])
			params := parseParams(head[op+1 : strings.LastIndex(head, ")")])
			c, err := mk(body, l.line)
			if err != nil {
				return err
			}
			if old, dup := C.Preds[name]; dup {
				return fmt.Errorf("%s:%d: predicate %s is already defined (package %s): predicate names are global", path, l.line, name, old.Pkg)
			}
			C.Preds[name] = &PredDef{Name: name, Params: params, Body: c, Pkg: pkgPath, Opaque: opaquePred}
			curF, curLoop, curLemma, curAxiom = nil, nil, nil, nil
		case "spec":
			// spec func name(params) rettype
			r := strings.TrimSpace(strings.TrimPrefix(rest, "func"))
			op := strings.Index(r, "(")
			cl := matchParen(r, op)
			name := strings.TrimSpace(r[:op])
			C.Specs[name] = &SpecFunc{Name: name, Params: parseParams(r[op+1 : cl]), Ret: strings.TrimSpace(r[cl+1:]), Pkg: pkgPath}
			curF, curLoop, curLemma, curAxiom = nil, nil, nil, nil
		case "axiom":
			ci := strings.Index(rest, ":")
			c, err := mk(rest[ci+1:], l.line)
			if err != nil {
				return err
			}
			curAxiom = &Axiom{Name: strings.TrimSpace(rest[:ci]), Body: c, Pkg: pkgPath}
			C.Axioms = append(C.Axioms, curAxiom)
			curF, curLoop, curLemma = nil, nil, nil
		case "structural":
			// structural nocallers <func> : <why>
			f := strings.Fields(rest)
			if len(f) < 2 {
				return fmt.Errorf("%s:%d: structural needs a kind and a target", path, l.line)
			}
			why := ""
			if i := strings.Index(rest, ":"); i >= 0 {
				why = strings.TrimSpace(rest[i+1:])
			}
			curStruct = &Structural{Kind: f[0], Target: strings.TrimSuffix(f[1], ":"), Pkg: pkgPath, Why: why}
			if len(f) > 3 && f[2] == "in" {
				// structural storesonly <Type.field> in <func>[,<func>...] : <why>
				lst := rest[strings.Index(rest, " in ")+4:]
				if i := strings.Index(lst, " :"); i >= 0 {
					lst = lst[:i]
				}
				for _, a := range strings.Split(lst, ",") {
					if a = strings.TrimSpace(a); a != "" {
						curStruct.Allowed = append(curStruct.Allowed, a)
					}
				}
			}
			C.Structurals = append(C.Structurals, curStruct)
			curF, curLoop, curLemma, curAxiom = nil, nil, nil, nil
		case "lemma":
			curStruct = nil
			curCall = nil
			curLemma = &Lemma{Name: rest, Pkg: pkgPath, File: path, Line: l.line}
			C.Lemmas = append(C.Lemmas, curLemma)
			curF, curLoop, curAxiom = nil, nil, nil
		case "vars":
			curLemma.Vars = append(curLemma.Vars, parseParams(rest)...)
		case "call":
			// call r1, r2 = callee(args)
			eqi := strings.Index(rest, "=")
			lhs := strings.TrimSpace(rest[:eqi])
			rhs := strings.TrimSpace(rest[eqi+1:])
			e, err := parser.ParseExpr(rhs)
			if err != nil {
				return fmt.Errorf("%s:%d: %v", path, l.line, err)
			}
			ce, ok := e.(*ast.CallExpr)
			if !ok {
				return fmt.Errorf("%s:%d: call needs a call expression", path, l.line)
			}
			st := &LemmaStep{Kind: "call", Args: ce.Args, Clause: &Clause{Text: rest, Line: l.line, File: path}}
			st.Callee = exprText(ce.Fun)
			for _, r := range strings.Split(lhs, ",") {
				st.Results = append(st.Results, strings.TrimSpace(r))
			}
			curLemma.Steps = append(curLemma.Steps, st)
		default:
			return fmt.Errorf("%s:%d: unknown contract keyword %q", path, l.line, kw)
		}
	}
	return nil
}

func matchParen(s string, open int) int {
	d := 0
	for i := open; i < len(s); i++ {
		if s[i] == '(' {
			d++
		} else if s[i] == ')' {
			d--
			if d == 0 {
				return i
			}
		}
	}
	return len(s) - 1
}

func firstWord(s string) string {
	for i, c := range s {
		if !(c >= 'a' && c <= 'z') {
			return s[:i]
		}
	}
	return s
}

// isExternalName reports names like "bytes.Equal" or "(*sync.Mutex).Lock" that refer to packages
// outside the contract file's own package.
func isExternalName(name string) bool {
	n := name
	if strings.HasPrefix(n, "(") {
		// method: (*T).M or (T).M or (*pkg.T).M
		end := strings.Index(n, ")")
		inner := strings.TrimPrefix(n[1:end], "*")
		return strings.Contains(inner, ".")
	}
	return strings.Contains(n, ".")
}

func exprText(e ast.Expr) string {
	switch e := e.(type) {
	case *ast.Ident:
		return e.Name
	case *ast.SelectorExpr:
		return exprText(e.X) + "." + e.Sel.Name
	case *ast.ParenExpr:
		return "(" + exprText(e.X) + ")"
	case *ast.StarExpr:
		return "*" + exprText(e.X)
	case *ast.ArrayType:
		if e.Len == nil {
			return "[]" + exprText(e.Elt)
		}
		if l, ok := e.Len.(*ast.BasicLit); ok {
			return "[" + l.Value + "]" + exprText(e.Elt)
		}
	}
	return fmt.Sprintf("%T", e)
}

// thin: the contract promises callers nothing — no requires, ensures or assumes, and the inferred frame; it only pins
// obligations at call sites inside the function itself.
func (c *FuncContract) thin() bool {
	if c.InlineAtCalls && !c.Trusted && len(c.Requires) == 0 {
		return true
	}
	return !c.Trusted && !c.Pure && !c.NoInline && c.ModAuto && len(c.Requires) == 0 && len(c.Ensures) == 0 && len(c.Assumes) == 0 && len(c.Modifies) == 0
}
