#!/usr/bin/env python3
"""Systematic gap finder: syntactic mutants of the functions a property's mechanisms are anchored in.

For property P: the functions overlapping the anchored line ranges (at the original commit) are located in the current
tree; each gets line-level mutants (dropped check, flipped comparison, off-by-one, swapped boolean operator, dropped
statement). Every mutant is applied to a scratch copy of /repo (outside /repo and /verif), must compile, is run against
the package's own tests (a mutant the tests kill is not interesting) and against the property's quick check.
Output: one line per mutant; the ones that SURVIVE the tests and are NOT REPORTED by the check are the list to read
(many are equivalent or harmless; the rest are gaps in the contracts).

usage: mutate.py <property> [-j N] [--max N] [--no-tests]
"""
import json, os, re, subprocess, sys, tempfile, shutil, concurrent.futures, random, hashlib

REPO = '/repo'
SHA = open('/root/.vp/repo_root_sha').read().strip()

def funcs_at_original(file, lo, hi):
    try:
        src = subprocess.check_output(['git', '-C', REPO, 'show', f'{SHA}:{file}'], text=True).split('\n')
    except Exception:
        return []
    decl = []
    for i, l in enumerate(src, 1):
        m = re.match(r'func\s+(\([^)]*\)\s*)?([A-Za-z0-9_]+)', l)
        if m:
            decl.append((i, (m.group(1) or '').strip(), m.group(2)))
    res = []
    for k, (i, recv, name) in enumerate(decl):
        end = decl[k + 1][0] - 1 if k + 1 < len(decl) else len(src)
        if i <= hi and end >= lo:
            res.append((recv, name))
    return res

def current_extent(file, recv, name):
    src = open(os.path.join(REPO, file)).read().split('\n')
    rtype = re.sub(r'^\(\s*\w*\s*', '(', recv)  # drop receiver variable name
    for i, l in enumerate(src):
        m = re.match(r'func\s+(\([^)]*\)\s*)?([A-Za-z0-9_]+)', l)
        if m and m.group(2) == name:
            r2 = re.sub(r'^\(\s*\w*\s*', '(', (m.group(1) or '').strip())
            if r2 == rtype:
                # function ends at the first line that is exactly "}" after i
                for j in range(i + 1, len(src)):
                    if src[j] == '}':
                        return i + 1, j + 1  # 1-based inclusive
    return None

OPS = [
    (r'^(\s*)if (.+) \{$', lambda m: f'{m.group(1)}if false && ({m.group(2)}) {{', 'drop-check'),
    (r' <= ', ' < ', 'le->lt'), (r' < ', ' <= ', 'lt->le'), (r' >= ', ' > ', 'ge->gt'), (r' > ', ' >= ', 'gt->ge'),
    (r' == ', ' != ', 'eq->ne'), (r' != ', ' == ', 'ne->eq'), (r' && ', ' || ', 'and->or'), (r' \|\| ', ' && ', 'or->and'),
    (r'\+ 1\b', '+ 2', 'plus1->plus2'), (r'- 1\b', '- 0', 'minus1->minus0'), (r'\+ 1\b', '+ 0', 'plus1->plus0'),
]

def mutants_for(file, lo, hi):
    src = open(os.path.join(REPO, file)).read().split('\n')
    out = []
    for ln in range(lo, hi + 1):
        line = src[ln - 1]
        s = line.strip()
        if not s or s.startswith('//') or 'log.' in s or 'metrics.' in s or s.startswith('return fmt.Errorf') or 'Errorf(' in s and not s.startswith('if'):
            continue
        for pat, rep, kind in OPS:
            if kind == 'drop-check':
                m = re.match(pat, line)
                if m and ' := ' not in m.group(2) and 'err != nil' not in m.group(2) and not m.group(2).startswith('false'):
                    out.append((file, ln, kind, rep(m)))
                continue
            for m in re.finditer(pat, line):
                new = line[:m.start()] + rep + line[m.end():]
                if new != line:
                    out.append((file, ln, kind, new))
        # dropped statement: a plain call or assignment statement on its own line
        if re.match(r'^\s*(delete\(|[A-Za-z_][\w.\[\]]* = [^=]|[A-Za-z_][\w.]*\([^)]*\)$)', line) and not s.startswith('return') and ':=' not in s and not s.endswith('{'):
            out.append((file, ln, 'drop-stmt', re.match(r'^\s*', line).group(0) + '// dropped'))
    return out

def run_one(args):
    prop, m, no_tests = args
    file, ln, kind, new = m
    sc = tempfile.mkdtemp(prefix='govc-mutant-'); out = tempfile.mkdtemp(prefix='govc-mutant-out-')
    env = dict(os.environ, GOFLAGS='-mod=mod', GOPROXY='off')
    try:
        subprocess.run(['rsync', '-a', '--exclude=.git', REPO + '/', sc + '/'], check=True)
        p = os.path.join(sc, file)
        src = open(p).read().split('\n')
        old = src[ln - 1]
        src[ln - 1] = new
        open(p, 'w').write('\n'.join(src))
        pkg = './' + os.path.dirname(file) if os.path.dirname(file) else '.'
        b = subprocess.run(['go', 'build', pkg], cwd=sc, env=env, capture_output=True, text=True)
        if b.returncode != 0:
            return m, old, 'no-compile', '', ''
        tests = 'skipped'
        if not no_tests and pkg != '.':
            t = subprocess.run(['go', 'test', '-vet=off', '-count=1', '-timeout', '180s', pkg], cwd=sc, env=env, capture_output=True, text=True)
            tests = 'survives' if t.returncode == 0 else 'killed'
        if tests == 'killed':
            return m, old, tests, 'n/a', ''
        e2 = dict(env, VERIF_REPO=sc, VERIF_OUT=out)
        r = subprocess.run(['/verif/bin/govc', 'check', '--property', prop, '--tier', 'quick'], env=e2, capture_output=True, text=True)
        viol = [l.split('obligation=')[-1].split(' ')[0] for l in r.stdout.splitlines() if l.startswith('VIOLATION')]
        verdict = 'REPORTED' if r.returncode == 1 and viol else ('error' if r.returncode not in (0, 1) else 'not-reported')
        return m, old, tests, verdict, ';'.join(viol[:2])
    finally:
        shutil.rmtree(sc, ignore_errors=True); shutil.rmtree(out, ignore_errors=True)

def main():
    prop = sys.argv[1]
    jobs, mx, no_tests = 3, 10**9, False
    a = sys.argv[2:]
    while a:
        x = a.pop(0)
        if x == '-j': jobs = int(a.pop(0))
        elif x == '--max': mx = int(a.pop(0))
        elif x == '--no-tests': no_tests = True
    p = [json.loads(l) for l in open('/verif/properties.jsonl') if json.loads(l)['id'] == prop][0]
    seen, muts = set(), []
    for mech in p['anchors'].get('mechanism', []):
        for part in mech['where'].split(';'):
            mm = re.match(r'\s*(\S+?):(.*)', part)
            if not mm or mm.group(1).endswith('cbor_gen.go'):
                continue
            file = mm.group(1)
            for rng in mm.group(2).split(','):
                rng = rng.strip()
                lo, hi = (map(int, rng.split('-')) if '-' in rng else (int(rng), int(rng)))
                for recv, name in funcs_at_original(file, lo, hi):
                    if (file, recv, name) in seen:
                        continue
                    seen.add((file, recv, name))
                    ext = current_extent(file, recv, name)
                    if ext:
                        muts += mutants_for(file, ext[0] + 1, ext[1] - 1)
    random.Random(1).shuffle(muts)
    muts = muts[:mx]
    print(f'# {prop}: {len(muts)} mutants over {len(seen)} functions', flush=True)
    counts = {}
    with concurrent.futures.ThreadPoolExecutor(max_workers=jobs) as ex:
        for m, old, tests, verdict, viol in ex.map(run_one, [(prop, m, no_tests) for m in muts]):
            key = (tests, verdict)
            counts[key] = counts.get(key, 0) + 1
            print(f'{prop} {m[0]}:{m[1]} {m[2]:14s} tests={tests:9s} check={verdict:12s} {viol[:110]} | {old.strip()[:90]}  =>  {m[3].strip()[:90]}', flush=True)
    print('# summary', prop, counts, flush=True)

main()
