package polling

import (
	"context"
	"fmt"
	"math/rand"
	"sync"
	"testing"
	"time"

	"github.com/filecoin-project/go-f3/certexchange"
	"github.com/filecoin-project/go-f3/certstore"
	"github.com/filecoin-project/go-f3/internal/clock"
	"github.com/filecoin-project/go-f3/sim/signing"
	"github.com/ipfs/go-datastore"
	ds_sync "github.com/ipfs/go-datastore/sync"
	mocknetwork "github.com/libp2p/go-libp2p/p2p/net/mock"
)

// recClock records the moment and the result of every Until call (one per polling round, made right
// before the subscriber re-arms its timer).
type recClock struct {
	*clock.Mock
	mu     sync.Mutex
	untilAt []time.Time
	until   []time.Duration
}

func (r *recClock) Until(t time.Time) time.Duration {
	d := r.Mock.Until(t)
	r.mu.Lock()
	r.untilAt = append(r.untilAt, r.Mock.Now())
	r.until = append(r.until, d)
	r.mu.Unlock()
	return d
}

// Replay harness for polling.(*Subscriber).run#at:Reset:1:wait_is_interval_plus_bounded_offset.
// No peers are known, so every round makes no progress and takes no time on the mock clock
// (offset == 0): the wait must then be exactly the predicted interval (the value Until returned).
func TestVerifReplay(t *testing.T) {
	backend := signing.NewFakeBackend()
	rng := rand.New(rand.NewSource(1234))
	cg := MakeCertificates(t, rng, backend)
	ctx, cancel := context.WithCancel(context.Background())
	defer cancel()
	mock := clock.NewMock()
	rc := &recClock{Mock: mock}
	mocknet := mocknetwork.New()
	clientHost, _ := mocknet.GenPeer()
	cds := ds_sync.MutexWrap(datastore.NewMapDatastore())
	ccs, err := certstore.CreateStore(ctx, cds, 0, cg.PowerTable)
	if err != nil {
		t.Fatal(err)
	}
	s := &Subscriber{
		Client:              certexchange.Client{Host: clientHost, NetworkName: TestNetworkName},
		Store:               ccs,
		SignatureVerifier:   backend,
		MinimumPollInterval: time.Millisecond, MaximumPollInterval: time.Second, InitialPollInterval: 100 * time.Millisecond,
	}
	s.clock = rc
	s.peerTracker = newPeerTracker(s.clock)
	s.poller, err = NewPoller(ctx, &s.Client, s.Store, s.SignatureVerifier)
	if err != nil {
		t.Fatal(err)
	}
	s.poller.clock = rc
	ch := make(chan struct{})
	close(ch)
	dc := make(chan [0]byte)
	_ = dc
	done := make(chan struct{})
	go func() { defer close(done); _ = s.run(ctx) }()
	// advance the mock clock in 1ms steps and let timers fire
	for i := 0; i < 700; i++ {
		time.Sleep(200 * time.Microsecond)
		mock.Add(time.Millisecond)
	}
	time.Sleep(20 * time.Millisecond)
	cancel()
	mock.Add(time.Second)
	rc.mu.Lock()
	defer rc.mu.Unlock()
	if len(rc.untilAt) < 2 {
		fmt.Printf("REPLAY-INCONCLUSIVE only %d polling rounds observed\n", len(rc.untilAt))
		return
	}
	bad := false
	for i := 0; i+1 < len(rc.untilAt); i++ {
		waited := rc.untilAt[i+1].Sub(rc.untilAt[i])
		predicted := rc.until[i]
		fmt.Printf("round %d: predicted wait %v, actual wait until next round %v\n", i, predicted, waited)
		// offset is 0 in this scenario, so the wait must be the predicted one (1ms stepping tolerance)
		if waited > predicted+2*time.Millisecond {
			bad = true
		}
	}
	if bad {
		fmt.Println("REPLAY-CONFIRMED the subscriber waited longer than predicted interval + min(offset, interval/2) with offset = 0")
	} else {
		fmt.Println("REPLAY-NOT-REPRODUCED")
	}
}
