package main

import (
	"fmt"
	"go/types"
	"sort"
	"strings"

	"golang.org/x/tools/go/ssa"
)

// verifyFunc generates all obligations of one function under contract.
func verifyFunc(P *Program, C *Contracts, fc *FuncContract) *Unit {
	u := newUnit(P, C, shortKey(fc.Key))
	u.fc = fc
	fn := P.Funcs[fc.Key]
	if fn == nil {
		u.oblige(u.Name+"#contract-binding", "contract-binding", "function "+fc.Key+" exists in the working tree", "false", nil)
		return u
	}
	if fn.Blocks == nil {
		u.oblige(u.Name+"#contract-binding", "contract-binding", "function "+fc.Key+" has a body", "false", nil)
		return u
	}
	fr := &Frame{u: u, fn: fn, fc: fc, top: true}
	st := &State{comps: map[string]string{}}
	var args []*Val
	vars := map[string]string{}
	for _, p := range fn.Params {
		v := fr.freshValNamed(p.Type(), "$"+p.Name())
		args = append(args, v)
		vars[p.Name()] = v.S
	}
	u.addAxioms(fr)
	// preconditions
	env := fr.contractEnv(fc, fn, args, nil, st, st)
	var reqs []string
	for _, rq := range fc.Requires {
		f := env.eval(rq.Expr).S
		reqs = append(reqs, f)
		u.assert(f)
	}
	// all pointer parameters and everything read from the entry heap was allocated before entry
	for _, a := range args {
		if a.S != "" && u.S.sortOf(a.T) == "Int" && isRefType(a.T) {
			u.assert("(< " + a.S + " WM@0)")
			u.assert("(>= " + a.S + " 0)")
		}
	}
	u.compInit("WM", "Int")
	cover := u.oblige(u.Name+"#requires-sat", "cover", "the precondition is satisfiable", "true", nil)
	cover.ExpectSat = true
	cover.Vars = vars
	fr.run("true", st, args)
	fr.checkLatches()
	// postconditions at every return
	if len(fr.rets) == 0 {
		u.note("function %s has no reachable return", fc.Key)
	}
	var reachAny []string
	for _, r := range fr.rets {
		reachAny = append(reachAny, r.reach)
	}
	for k, en := range fc.Ensures {
		var parts []string
		for _, r := range fr.rets {
			e := fr.contractEnv(fc, fn, args, r.results, r.st, st)
			parts = append(parts, implies(r.reach, e.eval(en.Expr).S))
		}
		o := u.oblige(fmt.Sprintf("%s#ensures:%s", u.Name, clauseID(en, k)), "ensures", "postcondition: "+en.Text, and(parts...), en)
		o.Vars = vars
	}
	if fc.HasMod && !fc.ModAll {
		u.frameObligation(fr, fc, fn, args, st)
	}
	if len(fr.rets) > 0 {
		o := u.oblige(u.Name+"#reach-end", "cover", "some return is reachable under the contract", or(reachAny...), nil)
		o.ExpectSat = true
	}
	for _, p := range u.problems {
		u.oblige(u.Name+"#contract-binding:"+shortHash(p), "contract-binding", "contract refers to the code as it is: "+p, "false", nil)
	}
	return u
}

func isRefType(t types.Type) bool {
	switch types.Unalias(t).Underlying().(type) {
	case *types.Pointer, *types.Map, *types.Chan:
		return true
	}
	return false
}

func shortKey(key string) string {
	return strings.TrimPrefix(strings.TrimPrefix(key, modPath+"/"), modPath+".")
}

// addAxioms asserts the contract files' axioms (assumptions, listed in evidence).
func (u *Unit) addAxioms(fr *Frame) {
	for _, ax := range u.C.Axioms {
		env := &SpecEnv{fr: fr, vars: map[string]*Val{}, cur: &State{comps: map[string]string{}}, pkg: u.pkgTypes(ax.Pkg), errs: &u.problems}
		u.assert(env.eval(ax.Body.Expr).S)
	}
}

func (u *Unit) pkgTypes(path string) *types.Package {
	if p, ok := u.P.ByPath[path]; ok {
		return p.Types
	}
	return nil
}

// frameObligation: every heap component is unchanged outside the declared modifies set, for
// references that existed at entry.
func (u *Unit) frameObligation(fr *Frame, fc *FuncContract, fn *ssa.Function, args []*Val, st0 *State) {
	// collect allowed locations per component
	allow := map[string]*allowedSet{}
	get := func(c string) *allowedSet {
		if allow[c] == nil {
			allow[c] = &allowedSet{}
		}
		return allow[c]
	}
	env := fr.contractEnv(fc, fn, args, nil, st0, st0)
	for _, m := range fc.Modifies {
		text := strings.TrimSpace(m.Text)
		contents := strings.HasSuffix(text, "[]")
		text = strings.TrimSuffix(text, "[]")
		e, err := parseSpecExpr(text)
		if err != nil {
			continue
		}
		if contents {
			v := env.eval(e)
			switch t := types.Unalias(v.T).Underlying().(type) {
			case *types.Map:
				hn, _, vn, _ := u.mapComps(t)
				get(hn).refs = append(get(hn).refs, v.S)
				get(vn).refs = append(get(vn).refs, v.S)
				get("ML").refs = append(get("ML").refs, v.S)
			case *types.Slice:
				cn, _ := u.elemComp(t.Elem())
				get(cn).refs = append(get(cn).refs, app("sl_arr", v.S))
			case *types.Pointer:
				pl := fr.placeOf(v)
				u.allowPlace(pl, get)
			}
			continue
		}
		pl := env.placeExpr(e)
		if pl != nil {
			u.allowPlace(pl, get)
		}
	}
	var comps []string
	for c := range u.compSort {
		if c == "WM" || strings.HasPrefix(c, "VIS_") {
			continue
		}
		comps = append(comps, c)
	}
	sort.Strings(comps)
	var parts []string
	for _, r := range fr.rets {
		var cs []string
		for _, c := range comps {
			so := u.compSort[c]
			fin := u.comp(r.st, c, so)
			ini := c + "@0"
			if fin == ini {
				continue
			}
			a := allow[c]
			var ex []string
			if a != nil {
				for _, ref := range a.refs {
					ex = append(ex, not(eq("q!r", ref)))
				}
			}
			guard := and(append([]string{"(< q!r WM@0)", "(>= q!r 0)"}, ex...)...)
			if strings.HasPrefix(c, "E_") && a != nil && len(a.elems) > 0 {
				// element-wise exceptions
				var exe []string
				for _, e := range a.elems {
					exe = append(exe, not(and(eq("q!r", e[0]), eq("q!j", e[1]))))
				}
				cs = append(cs, fmt.Sprintf("(forall ((q!r Int) (q!j Int)) (=> %s (= (select (select %s q!r) q!j) (select (select %s q!r) q!j))))", and(guard, and(exe...)), fin, ini))
				continue
			}
			cs = append(cs, fmt.Sprintf("(forall ((q!r Int)) (=> %s (= (select %s q!r) (select %s q!r))))", guard, fin, ini))
		}
		parts = append(parts, implies(r.reach, and(cs...)))
	}
	u.oblige(u.Name+"#modifies", "modifies", "nothing outside the modifies clause changes", and(parts...), nil)
}

type allowedSet struct {
	refs  []string    // whole cell at these refs
	elems [][2]string // (arr, idx) for element components
}

func (u *Unit) allowPlace(pl *Place, get func(string) *allowedSet) {
	switch {
	case pl.Elem:
		cn, _ := u.elemComp(pl.BaseT)
		get(cn).elems = append(get(cn).elems, [2]string{pl.Base, pl.Idx})
	case isStructVal(pl.BaseT):
		if len(pl.Path) > 0 {
			cn, _ := u.fieldComp(pl.BaseT, pl.Path[0])
			get(cn).refs = append(get(cn).refs, pl.Base)
			return
		}
		so := u.S.sortOf(pl.BaseT)
		for i := range u.S.structs[so].Fields {
			cn, _ := u.fieldComp(pl.BaseT, i)
			get(cn).refs = append(get(cn).refs, pl.Base)
		}
	default:
		cn, _ := u.ptrComp(pl.BaseT)
		get(cn).refs = append(get(cn).refs, pl.Base)
	}
}
