package main

import (
	"go/types"
	"sort"
	"strings"

	"golang.org/x/tools/go/ssa"
)

// ModSet is the inferred set of heap components a function may write (transitively).
type ModSet struct {
	comps map[string]compRef // component name -> how to (re)declare it in a unit
	all   bool
	why   string
}

// compRef lets any unit declare the component with its own sort table.
type compRef struct {
	kind  string // field | ptr | elem | maph | mapv | ml | wm
	t     types.Type
	field int
}

func (u *Unit) resolveComp(c compRef) (string, string) {
	switch c.kind {
	case "field":
		return u.fieldComp(c.t, c.field)
	case "ptr":
		return u.ptrComp(c.t)
	case "elem":
		return u.elemComp(c.t)
	case "maph":
		hn, hs, _, _ := u.mapComps(c.t.(*types.Map))
		return hn, hs
	case "mapv":
		_, _, vn, vs := u.mapComps(c.t.(*types.Map))
		return vn, vs
	case "ml":
		return "ML", "(Array Int Int)"
	}
	return "WM", "Int"
}

func (ms *ModSet) add(u *Unit, c compRef) {
	n, _ := u.resolveComp(c)
	ms.comps[n] = c
}

type modAnalysis struct {
	P      *Program
	u      *Unit // naming of components (shares nothing else)
	direct map[*ssa.Function]*ModSet
	calls  map[*ssa.Function][]*ssa.Function
	trans  map[*ssa.Function]*ModSet
	impls  map[string][]*ssa.Function // interface method key -> module implementations
	bySig  map[string][]*ssa.Function // signature string -> address-taken module functions
	C      *Contracts
}

var theModAnalysis *modAnalysis

func getModAnalysis(P *Program, C *Contracts) *modAnalysis {
	if theModAnalysis != nil && theModAnalysis.P == P {
		return theModAnalysis
	}
	m := &modAnalysis{P: P, C: C, u: newUnit(P, C, "modset"), direct: map[*ssa.Function]*ModSet{}, calls: map[*ssa.Function][]*ssa.Function{}, trans: map[*ssa.Function]*ModSet{}, impls: map[string][]*ssa.Function{}, bySig: map[string][]*ssa.Function{}}
	m.index()
	theModAnalysis = m
	return m
}

func inModule(fn *ssa.Function) bool {
	return strings.HasPrefix(funcKey(fn), modPath)
}

// index records module functions by signature (for dynamic calls) and by method name (for invokes).
func (m *modAnalysis) index() {
	for _, fn := range m.P.Funcs {
		if !inModule(fn) || fn.Blocks == nil {
			continue
		}
		if fn.Signature.Recv() != nil {
			m.impls[fn.Name()] = append(m.impls[fn.Name()], fn)
		}
	}
	// functions used as values (address-taken): only these can be the target of a dynamic call
	taken := map[*ssa.Function]bool{}
	for _, fn := range m.P.Funcs {
		if !inModule(fn) {
			continue
		}
		for _, b := range fn.Blocks {
			for _, ins := range b.Instrs {
				var skip ssa.Value
				if ci, ok := ins.(ssa.CallInstruction); ok {
					skip = ci.Common().Value // direct call / go / defer of a closure is not a value use
				}
				for _, op := range ins.Operands(nil) {
					if op == nil || *op == nil || *op == skip {
						continue
					}
					if mc, ok := ins.(*ssa.MakeClosure); ok && *op == mc.Fn {
						continue // handled through the closure's referrers below
					}
					switch v := (*op).(type) {
					case *ssa.Function:
						taken[v] = true
					case *ssa.MakeClosure:
						taken[v.Fn.(*ssa.Function)] = true
					}
				}
				if mc, ok := ins.(*ssa.MakeClosure); ok {
					// a closure stored or passed anywhere other than an immediate call
					for _, ref := range *mc.Referrers() {
						if ci, ok := ref.(ssa.CallInstruction); ok && ci.Common().Value == ssa.Value(mc) {
							continue
						}
						taken[mc.Fn.(*ssa.Function)] = true
					}
				}
			}
		}
	}
	for fn := range taken {
		if !inModule(fn) || fn.Blocks == nil {
			continue
		}
		sig := types.TypeString(stripRecv(fn.Signature), nil)
		m.bySig[sig] = append(m.bySig[sig], fn)
	}
}

func stripRecv(s *types.Signature) *types.Signature {
	return types.NewSignatureType(nil, nil, nil, s.Params(), s.Results(), s.Variadic())
}

// addrComps names the components a store through addr may hit.
func (m *modAnalysis) addrComps(addr ssa.Value, out *ModSet) {
	u := m.u
	switch a := addr.(type) {
	case *ssa.FieldAddr:
		// walk to the root of the field chain
		root := ssa.Value(a)
		var first *ssa.FieldAddr
		for {
			fa, ok := root.(*ssa.FieldAddr)
			if !ok {
				break
			}
			first = fa
			root = fa.X
		}
		if ia, ok := root.(*ssa.IndexAddr); ok {
			m.addrComps(ia, out)
			return
		}
		pt, ok := types.Unalias(first.X.Type()).Underlying().(*types.Pointer)
		if !ok {
			out.all, out.why = true, "field address of non-pointer"
			return
		}
		out.add(u, compRef{kind: "field", t: pt.Elem(), field: first.Field})
		// the base may itself be an interior pointer handed in by a caller: the caller havocs escaped places
	case *ssa.IndexAddr:
		switch xt := types.Unalias(a.X.Type()).Underlying().(type) {
		case *types.Slice:
			out.add(u, compRef{kind: "elem", t: xt.Elem()})
		case *types.Pointer:
			if at, ok := xt.Elem().Underlying().(*types.Array); ok {
				out.add(u, compRef{kind: "elem", t: at.Elem()})
			}
		}
	default:
		pt, ok := types.Unalias(addr.Type()).Underlying().(*types.Pointer)
		if !ok {
			return
		}
		m.wholeObject(pt.Elem(), out)
	}
}

func (m *modAnalysis) wholeObject(t types.Type, out *ModSet) {
	u := m.u
	if isStructVal(t) {
		so := u.S.sortOf(t)
		for i := range u.S.structs[so].Fields {
			out.add(u, compRef{kind: "field", t: t, field: i})
		}
		return
	}
	if at, ok := t.Underlying().(*types.Array); ok {
		out.add(u, compRef{kind: "elem", t: at.Elem()})
		return
	}
	out.add(u, compRef{kind: "ptr", t: t})
}

func (m *modAnalysis) mapComps(t types.Type, out *ModSet) {
	mt, ok := types.Unalias(t).Underlying().(*types.Map)
	if !ok {
		return
	}
	out.add(m.u, compRef{kind: "maph", t: mt})
	out.add(m.u, compRef{kind: "mapv", t: mt})
	out.add(m.u, compRef{kind: "ml"})
}

func (m *modAnalysis) directOf(fn *ssa.Function) (*ModSet, []*ssa.Function) {
	if d, ok := m.direct[fn]; ok {
		return d, m.calls[fn]
	}
	d := &ModSet{comps: map[string]compRef{}}
	var callees []*ssa.Function
	m.direct[fn] = d
	addCallee := func(c *ssa.Function) {
		callees = append(callees, c)
	}
	for _, b := range fn.Blocks {
		for _, ins := range b.Instrs {
			switch ins := ins.(type) {
			case *ssa.Store:
				if !isFreshRoot(ins.Addr) {
					m.addrComps(ins.Addr, d)
				}
			case *ssa.MapUpdate:
				m.mapComps(ins.Map.Type(), d)
			case *ssa.Alloc, *ssa.MakeMap, *ssa.MakeSlice, *ssa.MakeClosure, *ssa.MakeChan:
				// writes to objects that did not exist before the call do not concern the caller's cells
				d.add(m.u, compRef{kind: "wm"})
			case *ssa.Select:
				// receives write their destinations only through SSA values
			case ssa.CallInstruction:
				cc := ins.Common()
				if bi, ok := cc.Value.(*ssa.Builtin); ok {
					switch bi.Name() {
					case "append":
						// modelled as a fresh backing array
						d.add(m.u, compRef{kind: "wm"})
					case "copy":
						if st, ok := types.Unalias(cc.Args[0].Type()).Underlying().(*types.Slice); ok {
							d.add(m.u, compRef{kind: "elem", t: st.Elem()})
						}
					case "delete", "clear":
						m.mapComps(cc.Args[0].Type(), d)
						if st, ok := types.Unalias(cc.Args[0].Type()).Underlying().(*types.Slice); ok {
							d.add(m.u, compRef{kind: "elem", t: st.Elem()})
						}
					}
					continue
				}
				if cc.IsInvoke() {
					if isPureIfaceMethod(cc) {
						continue
					}
					// class-hierarchy analysis over module types; external implementations are assumed
					// not to write module state except through what they are handed
					for _, impl := range m.impls[cc.Method.Name()] {
						if types.Implements(recvType(impl), cc.Value.Type().Underlying().(*types.Interface)) {
							addCallee(impl)
						}
					}
					m.escapes(cc, d)
					continue
				}
				callee := cc.StaticCallee()
				if callee == nil {
					if mc, ok := cc.Value.(*ssa.MakeClosure); ok {
						addCallee(mc.Fn.(*ssa.Function))
						continue
					}
					// dynamic call: resolve the function value where its origin is visible, otherwise every
					// address-taken module function of that signature
					if fs, known := funcOrigins(cc.Value, 0); known {
						for _, f := range fs {
							if inModule(f) && f.Blocks != nil {
								addCallee(f)
							}
						}
					} else if sig, ok := cc.Value.Type().Underlying().(*types.Signature); ok {
						for _, f := range m.bySig[types.TypeString(stripRecv(sig), nil)] {
							addCallee(f)
						}
					}
					m.escapes(cc, d)
					continue
				}
				if c := m.C.Funcs[funcKey(callee)]; c != nil && c.HasMod && !c.ModAll && !c.ModAuto {
					// explicit frame in the contract: name its components conservatively from the callee body anyway
				}
				if inModule(callee) {
					if callee.Blocks != nil {
						addCallee(callee)
					}
					continue
				}
				if isNoopCallee(callee) || (isPurePkgFunc(callee) && !mutatingExternals[funcKey(callee)]) {
					continue
				}
				// external mutating function: writes what it is handed, may call back
				m.escapes(cc, d)
				for _, a := range cc.Args {
					switch t := types.Unalias(a.Type()).Underlying().(type) {
					case *types.Interface:
						for i := 0; i < t.NumMethods(); i++ {
							for _, impl := range m.impls[t.Method(i).Name()] {
								if types.Implements(recvType(impl), t) {
									addCallee(impl)
								}
							}
						}
					case *types.Signature:
						if fs, known := funcOrigins(a, 0); known {
							for _, f := range fs {
								if inModule(f) && f.Blocks != nil {
									addCallee(f)
								}
							}
						} else {
							for _, f := range m.bySig[types.TypeString(stripRecv(t), nil)] {
								addCallee(f)
							}
						}
					}
				}
			}
		}
	}
	for _, af := range fn.AnonFuncs {
		_ = af // closures are reached through MakeClosure + dynamic calls (bySig) or Go/Defer statements
	}
	m.calls[fn] = callees
	return d, callees
}

// isFreshRoot: the address is inside an object allocated by this very function.
func isFreshRoot(addr ssa.Value) bool {
	for {
		switch a := addr.(type) {
		case *ssa.FieldAddr:
			addr = a.X
		case *ssa.IndexAddr:
			if _, ok := a.X.(*ssa.MakeSlice); ok {
				return true
			}
			if sl, ok := a.X.(*ssa.Slice); ok {
				addr = sl.X
				continue
			}
			addr = a.X
		case *ssa.Alloc:
			return true
		default:
			return false
		}
	}
}

// funcOrigins traces a function value to the functions it can denote. known=false when the origin is
// not visible locally (parameter, field, map, channel).
func funcOrigins(v ssa.Value, depth int) ([]*ssa.Function, bool) {
	if depth > 6 {
		return nil, false
	}
	switch x := v.(type) {
	case *ssa.Function:
		return []*ssa.Function{x}, true
	case *ssa.MakeClosure:
		return []*ssa.Function{x.Fn.(*ssa.Function)}, true
	case *ssa.Extract:
		if call, ok := x.Tuple.(*ssa.Call); ok {
			if c := call.Common().StaticCallee(); c != nil && inModule(c) && c.Blocks != nil {
				return returnOrigins(c, x.Index, depth+1)
			}
		}
		return funcOrigins(x.Tuple, depth+1)
	case *ssa.ChangeType:
		return funcOrigins(x.X, depth+1)
	case *ssa.Call:
		if c := x.Common().StaticCallee(); c != nil && !inModule(c) {
			// a function value produced by external code is external code
			return nil, true
		} else if c != nil && c.Blocks != nil {
			return returnOrigins(c, 0, depth+1)
		}
		return nil, false
	case *ssa.Phi:
		var all []*ssa.Function
		for _, e := range x.Edges {
			fs, ok := funcOrigins(e, depth+1)
			if !ok {
				return nil, false
			}
			all = append(all, fs...)
		}
		return all, true
	case *ssa.Const:
		return nil, true // nil function
	case *ssa.UnOp:
		// load from a local variable cell (possibly captured by closures)
		if cell := cellOf(x.X); cell != nil {
			var all []*ssa.Function
			for _, sv := range cellStores(cell) {
				fs, ok := funcOrigins(sv, depth+1)
				if !ok {
					return nil, false
				}
				all = append(all, fs...)
			}
			return all, true
		}
	case *ssa.FreeVar:
		// captured by value
		if b := freeVarBinding(x); b != nil {
			return funcOrigins(b, depth+1)
		}
	}
	return nil, false
}

// returnOrigins: origins of the idx-th result of a module function.
func returnOrigins(c *ssa.Function, idx int, depth int) ([]*ssa.Function, bool) {
	var all []*ssa.Function
	for _, b := range c.Blocks {
		for _, ins := range b.Instrs {
			if r, ok := ins.(*ssa.Return); ok && idx < len(r.Results) {
				fs, ok := funcOrigins(r.Results[idx], depth+1)
				if !ok {
					return nil, false
				}
				all = append(all, fs...)
			}
		}
	}
	return all, true
}

// cellOf: the Alloc a pointer value denotes, looking through closure captures.
func cellOf(v ssa.Value) *ssa.Alloc {
	switch x := v.(type) {
	case *ssa.Alloc:
		return x
	case *ssa.FreeVar:
		if b := freeVarBinding(x); b != nil {
			return cellOf(b)
		}
	}
	return nil
}

// freeVarBinding finds the value bound to a free variable, when its function is closed over exactly once.
func freeVarBinding(fv *ssa.FreeVar) ssa.Value {
	fn := fv.Parent()
	parent := fn.Parent()
	if parent == nil {
		return nil
	}
	idx := -1
	for i, f := range fn.FreeVars {
		if f == fv {
			idx = i
		}
	}
	var found ssa.Value
	n := 0
	for _, b := range parent.Blocks {
		for _, ins := range b.Instrs {
			if mc, ok := ins.(*ssa.MakeClosure); ok && mc.Fn == ssa.Value(fn) && idx >= 0 && idx < len(mc.Bindings) {
				found = mc.Bindings[idx]
				n++
			}
		}
	}
	if n == 1 {
		return found
	}
	return nil
}

// cellStores: every value stored into a local variable cell, in its function and in closures capturing it.
// Returns nil slice element-wise complete only when the cell's address does not escape otherwise.
func cellStores(cell *ssa.Alloc) []ssa.Value {
	var res []ssa.Value
	var visit func(fn *ssa.Function, addr ssa.Value)
	visit = func(fn *ssa.Function, addr ssa.Value) {
		for _, b := range fn.Blocks {
			for _, ins := range b.Instrs {
				switch x := ins.(type) {
				case *ssa.Store:
					if x.Addr == addr {
						res = append(res, x.Val)
					}
				case *ssa.MakeClosure:
					for i, bnd := range x.Bindings {
						if bnd == addr {
							cf := x.Fn.(*ssa.Function)
							visit(cf, cf.FreeVars[i])
						}
					}
				}
			}
		}
	}
	visit(cell.Parent(), cell)
	return res
}

func recvType(fn *ssa.Function) types.Type {
	return fn.Signature.Recv().Type()
}

// escapes: an external callee may write every object whose pointer/slice/map it receives.
func (m *modAnalysis) escapes(cc *ssa.CallCommon, d *ModSet) {
	for _, a := range cc.Args {
		m.reachableWrites(a.Type(), d, 0)
	}
}

func (m *modAnalysis) reachableWrites(t types.Type, d *ModSet, depth int) {
	if depth > 3 {
		return
	}
	switch x := types.Unalias(t).Underlying().(type) {
	case *types.Pointer:
		if _, ov := sortOverrides[typeKey(types.Unalias(x.Elem()))]; ov {
			return
		}
		m.wholeObject(x.Elem(), d)
		if st, ok := x.Elem().Underlying().(*types.Struct); ok {
			for i := 0; i < st.NumFields(); i++ {
				m.reachableWrites(st.Field(i).Type(), d, depth+1)
			}
		}
	case *types.Slice:
		d.add(m.u, compRef{kind: "elem", t: x.Elem()})
	case *types.Map:
		m.mapComps(t, d)
	}
}

// modSetOf is the transitive closure over the static call graph.
func (m *modAnalysis) modSetOf(fn *ssa.Function) *ModSet {
	if t, ok := m.trans[fn]; ok {
		return t
	}
	res := &ModSet{comps: map[string]compRef{}}
	seen := map[*ssa.Function]bool{}
	stack := []*ssa.Function{fn}
	for len(stack) > 0 {
		f := stack[len(stack)-1]
		stack = stack[:len(stack)-1]
		if seen[f] {
			continue
		}
		seen[f] = true
		d, callees := m.directOf(f)
		if d.all {
			res.all, res.why = true, d.why+" in "+f.Name()
		}
		for c, s := range d.comps {
			res.comps[c] = s
		}
		stack = append(stack, callees...)
	}
	m.trans[fn] = res
	return res
}

func (ms *ModSet) sorted() []string {
	var ks []string
	for k := range ms.comps {
		ks = append(ks, k)
	}
	sort.Strings(ks)
	return ks
}

// havocModSet forgets exactly the inferred components.
func (fr *Frame) havocModSet(ms *ModSet, st *State, why string) {
	u := fr.u
	if ms.all {
		fr.havocAll(st, why)
		return
	}
	for _, c0 := range ms.sorted() {
		c, so := u.resolveComp(ms.comps[c0])
		u.compInit(c, so)
		if c == "WM" {
			if fr.dry {
				fr.setComp(st, "WM", "Int", "x")
				continue
			}
			n := u.S.fresh("WM@call", "Int")
			u.assert("(>= " + n + " " + u.comp(st, "WM", "Int") + ")")
			fr.setComp(st, "WM", "Int", n)
			continue
		}
		if fr.dry {
			fr.setComp(st, c, so, "x")
			continue
		}
		fr.setComp(st, c, so, u.S.fresh(c+"@call", so))
	}
}

// callbacks: an external callee may invoke methods of interface-typed arguments and function values.
func (m *modAnalysis) callbacks(cc *ssa.CallCommon, d *ModSet) {
	addAll := func(ms *ModSet) {
		if ms.all {
			d.all = true
		}
		for k, v := range ms.comps {
			d.comps[k] = v
		}
	}
	for _, a := range cc.Args {
		switch t := types.Unalias(a.Type()).Underlying().(type) {
		case *types.Interface:
			// which concrete module types flow here is unknown: all module types implementing it
			for i := 0; i < t.NumMethods(); i++ {
				for _, impl := range m.impls[t.Method(i).Name()] {
					if types.Implements(recvType(impl), t) {
						addAll(m.modSetOf(impl))
					}
				}
			}
			if mi, ok := a.(*ssa.MakeInterface); ok {
				// concrete type known: its whole method set
				ms := m.P.Prog.MethodSets.MethodSet(mi.X.Type())
				for i := 0; i < ms.Len(); i++ {
					if fn := m.P.Prog.MethodValue(ms.At(i)); fn != nil && fn.Blocks != nil && inModule(fn) {
						addAll(m.modSetOf(fn))
					}
				}
			}
		case *types.Signature:
			if fs, known := funcOrigins(a, 0); known {
				for _, f := range fs {
					if inModule(f) && f.Blocks != nil {
						addAll(m.modSetOf(f))
					}
				}
			} else {
				for _, f := range m.bySig[types.TypeString(stripRecv(t), nil)] {
					addAll(m.modSetOf(f))
				}
			}
		}
	}
}
