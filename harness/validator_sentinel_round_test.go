package gpbft_test

import (
	"context"
	"fmt"
	"math"
	"testing"

	"github.com/filecoin-project/go-bitfield"
	"github.com/filecoin-project/go-f3/gpbft"
)

// Replay harness for validateJustification: a COMMIT must be justified by a PREPARE quorum of the same round. The
// scenario presents a validly signed COMMIT for round 2^64-1 whose justification is a PREPARE quorum of round 7.
func TestVerifReplay(t *testing.T) {
	ctx := context.Background()
	chain := &gpbft.ECChain{TipSets: []*gpbft.TipSet{tipset0, tipSet1}}
	sc := validatorTestScenario{
		InstantProgress:   gpbft.InstanceProgress{Instant: gpbft.Instant{Phase: gpbft.QUALITY_PHASE}, Input: chain},
		CommitteeLookback: 10,
		Committees:        map[uint64]map[gpbft.ActorID]int{0: {1: 10}},
		CacheMaxGroups:    10, CacheMaxSetSize: 10,
	}
	bad := false
	for _, tc := range []struct {
		msgRound, justRound uint64
		want                bool
	}{{5, 5, true}, {5, 7, false}, {math.MaxUint64, math.MaxUint64, true}, {math.MaxUint64, 7, false}} {
		env := newValidatorTestEnvironment(sc)
		subject := env.newTestSubject()
		comt, _ := env.GetCommittee(ctx, 0)
		_, key := comt.PowerTable.Get(1)
		jp := gpbft.Payload{Instance: 0, Round: tc.justRound, Phase: gpbft.PREPARE_PHASE, Value: chain}
		jsig, err := env.signing.Sign(ctx, key, jp.MarshalForSigning(sc.NetworkName))
		if err != nil {
			t.Fatal(err)
		}
		agg, err := comt.AggregateVerifier.Aggregate([]int{0}, [][]byte{jsig})
		if err != nil {
			t.Fatal(err)
		}
		vote := gpbft.Payload{Instance: 0, Round: tc.msgRound, Phase: gpbft.COMMIT_PHASE, Value: chain}
		sig, _ := env.signing.Sign(ctx, key, vote.MarshalForSigning(sc.NetworkName))
		msg := &gpbft.GMessage{Sender: 1, Vote: vote, Signature: sig,
			Justification: &gpbft.Justification{Vote: jp, Signers: bitfield.NewFromSet([]uint64{0}), Signature: agg}}
		_, err = subject.ValidateMessage(ctx, msg)
		fmt.Printf("COMMIT round=%d justified by PREPARE round=%d -> accepted=%v (must be %v) err=%v\n", tc.msgRound, tc.justRound, err == nil, tc.want, err)
		if (err == nil) != tc.want {
			bad = true
		}
	}
	if bad {
		fmt.Println("REPLAY-CONFIRMED")
	}
}
