package main

import (
	"go/types"
	"sort"
	"strings"

	"golang.org/x/tools/go/ssa"
)

// ModSet is the inferred set of heap components a function may write (transitively).
type ModSet struct {
	comps map[string]compRef // components written at unknown references (component name -> declaration recipe)
	// components written only inside the object a parameter (byParam) or captured variable (byFree) points to
	byParam map[int]map[string]compRef
	byFree  map[int]map[string]compRef
	all     bool
	why     string
}

type callSite struct {
	callee   *ssa.Function
	args     []ssa.Value // aligned with callee.Params; nil when the alignment is unknown
	bindings []ssa.Value // aligned with callee.FreeVars; nil when unknown
}

func newModSet() *ModSet {
	return &ModSet{comps: map[string]compRef{}, byParam: map[int]map[string]compRef{}, byFree: map[int]map[string]compRef{}}
}

// addRooted records a write of component c inside the object denoted by root.
func (ms *ModSet) addRooted(u *Unit, c compRef, kind string, idx int) bool {
	n, _ := u.resolveComp(c)
	switch kind {
	case "fresh":
		return false
	case "param":
		if _, ok := ms.comps[n]; ok {
			return false
		}
		if ms.byParam[idx] == nil {
			ms.byParam[idx] = map[string]compRef{}
		}
		if _, ok := ms.byParam[idx][n]; ok {
			return false
		}
		ms.byParam[idx][n] = c
		return true
	case "free":
		if _, ok := ms.comps[n]; ok {
			return false
		}
		if ms.byFree[idx] == nil {
			ms.byFree[idx] = map[string]compRef{}
		}
		if _, ok := ms.byFree[idx][n]; ok {
			return false
		}
		ms.byFree[idx][n] = c
		return true
	}
	if _, ok := ms.comps[n]; ok {
		return false
	}
	ms.comps[n] = c
	return true
}

// rootOf classifies the object an address / slice / map value lives in: "fresh" (allocated by this function),
// "param" i, "free" k (captured variable), or "any".
func rootOf(v ssa.Value, depth int) (string, int) {
	if depth > 12 {
		return "any", 0
	}
	switch x := v.(type) {
	case *ssa.FieldAddr:
		return rootOf(x.X, depth+1)
	case *ssa.IndexAddr:
		return rootOf(x.X, depth+1)
	case *ssa.Slice:
		return rootOf(x.X, depth+1)
	case *ssa.ChangeType:
		return rootOf(x.X, depth+1)
	case *ssa.Alloc, *ssa.MakeSlice, *ssa.MakeMap, *ssa.MakeChan:
		return "fresh", 0
	case *ssa.Parameter:
		for i, p := range x.Parent().Params {
			if p == x {
				return "param", i
			}
		}
	case *ssa.FreeVar:
		for i, f := range x.Parent().FreeVars {
			if f == x {
				return "free", i
			}
		}
	case *ssa.Call:
		if b, ok := x.Common().Value.(*ssa.Builtin); ok && b.Name() == "append" {
			return "fresh", 0 // modelled as a fresh backing array
		}
	case *ssa.Phi:
		k0, i0 := "", 0
		for n, e := range x.Edges {
			k, i := rootOf(e, depth+1)
			if n == 0 {
				k0, i0 = k, i
			} else if k != k0 || i != i0 {
				return "any", 0
			}
		}
		if k0 != "" {
			return k0, i0
		}
	}
	return "any", 0
}

// compRef lets any unit declare the component with its own sort table.
type compRef struct {
	kind  string // field | ptr | elem | maph | mapv | ml | wm
	t     types.Type
	field int
}

func (u *Unit) resolveComp(c compRef) (string, string) {
	switch c.kind {
	case "field":
		return u.fieldComp(c.t, c.field)
	case "ptr":
		return u.ptrComp(c.t)
	case "elem":
		return u.elemComp(c.t)
	case "maph":
		hn, hs, _, _ := u.mapComps(c.t.(*types.Map))
		return hn, hs
	case "mapv":
		_, _, vn, vs := u.mapComps(c.t.(*types.Map))
		return vn, vs
	case "ml":
		return "ML", "(Array Int Int)"
	}
	return "WM", "Int"
}

func (ms *ModSet) add(u *Unit, c compRef) {
	n, _ := u.resolveComp(c)
	ms.comps[n] = c
}

type modAnalysis struct {
	P      *Program
	u      *Unit // naming of components (shares nothing else)
	direct map[*ssa.Function]*ModSet
	calls  map[*ssa.Function][]callSite
	trans  map[*ssa.Function]*ModSet
	impls  map[string][]*ssa.Function // interface method key -> module implementations
	bySig  map[string][]*ssa.Function // signature string -> address-taken module functions
	C      *Contracts
}

var theModAnalysis *modAnalysis

func getModAnalysis(P *Program, C *Contracts) *modAnalysis {
	if theModAnalysis != nil && theModAnalysis.P == P {
		return theModAnalysis
	}
	m := &modAnalysis{P: P, C: C, u: newUnit(P, C, "modset"), direct: map[*ssa.Function]*ModSet{}, calls: map[*ssa.Function][]callSite{}, trans: map[*ssa.Function]*ModSet{}, impls: map[string][]*ssa.Function{}, bySig: map[string][]*ssa.Function{}}
	m.index()
	theModAnalysis = m
	return m
}

func inModule(fn *ssa.Function) bool {
	return strings.HasPrefix(funcKey(fn), modPath)
}

// index records module functions by signature (for dynamic calls) and by method name (for invokes).
func (m *modAnalysis) index() {
	for _, fn := range m.P.Funcs {
		if !inModule(fn) || fn.Blocks == nil {
			continue
		}
		if fn.Signature.Recv() != nil {
			m.impls[fn.Name()] = append(m.impls[fn.Name()], fn)
		}
	}
	// functions used as values (address-taken): only these can be the target of a dynamic call
	taken := map[*ssa.Function]bool{}
	for _, fn := range m.P.Funcs {
		if !inModule(fn) {
			continue
		}
		for _, b := range fn.Blocks {
			for _, ins := range b.Instrs {
				var skip ssa.Value
				if ci, ok := ins.(ssa.CallInstruction); ok {
					skip = ci.Common().Value // direct call / go / defer of a closure is not a value use
				}
				for _, op := range ins.Operands(nil) {
					if op == nil || *op == nil || *op == skip {
						continue
					}
					if mc, ok := ins.(*ssa.MakeClosure); ok && *op == mc.Fn {
						continue // handled through the closure's referrers below
					}
					switch v := (*op).(type) {
					case *ssa.Function:
						taken[v] = true
					case *ssa.MakeClosure:
						taken[v.Fn.(*ssa.Function)] = true
					}
				}
				if mc, ok := ins.(*ssa.MakeClosure); ok {
					// a closure stored or passed anywhere other than an immediate call
					for _, ref := range *mc.Referrers() {
						if ci, ok := ref.(ssa.CallInstruction); ok && ci.Common().Value == ssa.Value(mc) {
							continue
						}
						taken[mc.Fn.(*ssa.Function)] = true
					}
				}
			}
		}
	}
	for fn := range taken {
		if !inModule(fn) || fn.Blocks == nil {
			continue
		}
		sig := types.TypeString(stripRecv(fn.Signature), nil)
		m.bySig[sig] = append(m.bySig[sig], fn)
	}
}

func stripRecv(s *types.Signature) *types.Signature {
	return types.NewSignatureType(nil, nil, nil, s.Params(), s.Results(), s.Variadic())
}

// compsOfAddr lists the components a store through addr may hit (type-based).
func (m *modAnalysis) compsOfAddr(addr ssa.Value) (res []compRef, all bool) {
	u := m.u
	switch a := addr.(type) {
	case *ssa.FieldAddr:
		root := ssa.Value(a)
		var first *ssa.FieldAddr
		for {
			fa, ok := root.(*ssa.FieldAddr)
			if !ok {
				break
			}
			first = fa
			root = fa.X
		}
		if ia, ok := root.(*ssa.IndexAddr); ok {
			return m.compsOfAddr(ia)
		}
		pt, ok := types.Unalias(first.X.Type()).Underlying().(*types.Pointer)
		if !ok {
			return nil, true
		}
		return []compRef{{kind: "field", t: pt.Elem(), field: first.Field}}, false
	case *ssa.IndexAddr:
		switch xt := types.Unalias(a.X.Type()).Underlying().(type) {
		case *types.Slice:
			return []compRef{{kind: "elem", t: xt.Elem()}}, false
		case *types.Pointer:
			if at, ok := xt.Elem().Underlying().(*types.Array); ok {
				return []compRef{{kind: "elem", t: at.Elem()}}, false
			}
		}
		return nil, false
	default:
		pt, ok := types.Unalias(addr.Type()).Underlying().(*types.Pointer)
		if !ok {
			return nil, false
		}
		return m.compsOfObject(pt.Elem()), false
	}
	_ = u
	return nil, false
}

func (m *modAnalysis) compsOfObject(t types.Type) []compRef {
	u := m.u
	if isStructVal(t) {
		so := u.S.sortOf(t)
		var res []compRef
		for i := range u.S.structs[so].Fields {
			res = append(res, compRef{kind: "field", t: t, field: i})
		}
		return res
	}
	if at, ok := t.Underlying().(*types.Array); ok {
		return []compRef{{kind: "elem", t: at.Elem()}}
	}
	return []compRef{{kind: "ptr", t: t}}
}

func (m *modAnalysis) wholeObject(t types.Type, out *ModSet) {
	for _, c := range m.compsOfObject(t) {
		out.add(m.u, c)
	}
}

func (m *modAnalysis) compsOfMap(t types.Type) []compRef {
	mt, ok := types.Unalias(t).Underlying().(*types.Map)
	if !ok {
		return nil
	}
	return []compRef{{kind: "maph", t: mt}, {kind: "mapv", t: mt}, {kind: "ml"}}
}

func (m *modAnalysis) mapComps(t types.Type, out *ModSet) {
	for _, c := range m.compsOfMap(t) {
		out.add(m.u, c)
	}
}

// directOf: the writes a function performs itself (rooted in parameters / captured variables where visible) and
// its call sites.
func (m *modAnalysis) directOf(fn *ssa.Function) (*ModSet, []callSite) {
	if d, ok := m.direct[fn]; ok {
		return d, m.calls[fn]
	}
	d := newModSet()
	var sites []callSite
	m.direct[fn] = d
	aligned := func(callee *ssa.Function, args []ssa.Value) []ssa.Value {
		if len(args) == len(callee.Params) {
			return args
		}
		return nil
	}
	addCallee := func(c *ssa.Function, args []ssa.Value, bindings []ssa.Value) {
		if c == nil || c.Blocks == nil || !inModule(c) {
			return
		}
		sites = append(sites, callSite{callee: c, args: aligned(c, args), bindings: bindings})
	}
	addOrigins := func(v ssa.Value, args []ssa.Value) {
		if mc, ok := v.(*ssa.MakeClosure); ok {
			addCallee(mc.Fn.(*ssa.Function), args, mc.Bindings)
			return
		}
		if fs, known := funcOrigins(v, 0); known {
			for _, f := range fs {
				addCallee(f, args, nil)
			}
			return
		}
		if sig, ok := v.Type().Underlying().(*types.Signature); ok {
			for _, f := range m.bySig[types.TypeString(stripRecv(sig), nil)] {
				addCallee(f, args, nil)
			}
		}
	}
	rooted := func(cs []compRef, v ssa.Value) {
		k, i := rootOf(v, 0)
		for _, c := range cs {
			d.addRooted(m.u, c, k, i)
		}
	}
	for _, b := range fn.Blocks {
		for _, ins := range b.Instrs {
			switch ins := ins.(type) {
			case *ssa.Store:
				cs, all := m.compsOfAddr(ins.Addr)
				if all {
					d.all, d.why = true, "store through an address of unknown shape"
				}
				rooted(cs, ins.Addr)
			case *ssa.MapUpdate:
				rooted(m.compsOfMap(ins.Map.Type()), ins.Map)
			case *ssa.Alloc, *ssa.MakeMap, *ssa.MakeSlice, *ssa.MakeClosure, *ssa.MakeChan:
				// writes to objects that did not exist before the call do not concern the caller's cells
				d.add(m.u, compRef{kind: "wm"})
			case ssa.CallInstruction:
				cc := ins.Common()
				if bi, ok := cc.Value.(*ssa.Builtin); ok {
					switch bi.Name() {
					case "append":
						d.add(m.u, compRef{kind: "wm"})
					case "copy":
						if st, ok := types.Unalias(cc.Args[0].Type()).Underlying().(*types.Slice); ok {
							rooted([]compRef{{kind: "elem", t: st.Elem()}}, cc.Args[0])
						}
					case "delete", "clear":
						rooted(m.compsOfMap(cc.Args[0].Type()), cc.Args[0])
						if st, ok := types.Unalias(cc.Args[0].Type()).Underlying().(*types.Slice); ok {
							rooted([]compRef{{kind: "elem", t: st.Elem()}}, cc.Args[0])
						}
					}
					continue
				}
				if cc.IsInvoke() {
					if isPureIfaceMethod(cc) {
						continue
					}
					// class-hierarchy analysis over module types; external implementations are assumed
					// not to write module state except through what they are handed
					args := append([]ssa.Value{cc.Value}, cc.Args...)
					for _, impl := range m.impls[cc.Method.Name()] {
						if types.Implements(recvType(impl), cc.Value.Type().Underlying().(*types.Interface)) {
							// the receiver is an interface value: its dynamic object is not the interface cell
							a2 := append([]ssa.Value{nil}, cc.Args...)
							_ = args
							addCallee(impl, a2, nil)
						}
					}
					m.escapesRooted(cc.Args, d)
					m.callbackSites(cc.Args, addOrigins, addCallee)
					continue
				}
				callee := cc.StaticCallee()
				if callee == nil {
					addOrigins(cc.Value, cc.Args)
					m.escapesRooted(cc.Args, d)
					continue
				}
				if mc, ok := cc.Value.(*ssa.MakeClosure); ok {
					addCallee(callee, cc.Args, mc.Bindings)
					continue
				}
				if inModule(callee) {
					addCallee(callee, cc.Args, nil)
					continue
				}
				if isNoopCallee(callee) || (isPurePkgFunc(callee) && !mutatingExternals[funcKey(callee)]) {
					continue
				}
				// external mutating function: writes what it is handed, may call back
				m.escapesRooted(cc.Args, d)
				m.callbackSites(cc.Args, addOrigins, addCallee)
			}
		}
	}
	m.calls[fn] = sites
	return d, sites
}

// callbackSites: an external callee may invoke methods of interface-typed arguments and function values.
func (m *modAnalysis) callbackSites(args []ssa.Value, addOrigins func(ssa.Value, []ssa.Value), addCallee func(*ssa.Function, []ssa.Value, []ssa.Value)) {
	for _, a := range args {
		switch t := types.Unalias(a.Type()).Underlying().(type) {
		case *types.Interface:
			if mi, ok := a.(*ssa.MakeInterface); ok {
				// the dynamic type is known: only its methods can be called back, on this very value
				mset := m.P.Prog.MethodSets.MethodSet(mi.X.Type())
				for i := 0; i < t.NumMethods(); i++ {
					sel := mset.Lookup(t.Method(i).Pkg(), t.Method(i).Name())
					if sel == nil {
						continue
					}
					if fn := m.P.Prog.MethodValue(sel); fn != nil && fn.Blocks != nil {
						cargs := make([]ssa.Value, len(fn.Params))
						if len(cargs) > 0 && types.Identical(fn.Params[0].Type(), mi.X.Type()) {
							cargs[0] = mi.X
						}
						addCallee(fn, cargs, nil)
					}
				}
				continue
			}
			for i := 0; i < t.NumMethods(); i++ {
				for _, impl := range m.impls[t.Method(i).Name()] {
					if types.Implements(recvType(impl), t) {
						addCallee(impl, nil, nil)
					}
				}
			}
		case *types.Signature:
			addOrigins(a, nil)
		}
	}
}

// escapesRooted: external code may write every object whose pointer/slice/map it receives (rooted where visible).
func (m *modAnalysis) escapesRooted(args []ssa.Value, d *ModSet) {
	for _, a := range args {
		tmp := newModSet()
		m.reachableWrites(a.Type(), tmp, 0)
		k, i := rootOf(a, 0)
		first := true
		_ = first
		for _, c := range tmp.comps {
			// only the directly handed object is rooted; anything reached through it is "any"
			d.addRooted(m.u, c, k, i)
		}
	}
}

// isFreshRoot: the address is inside an object allocated by this very function.
func isFreshRoot(addr ssa.Value) bool {
	for {
		switch a := addr.(type) {
		case *ssa.FieldAddr:
			addr = a.X
		case *ssa.IndexAddr:
			if _, ok := a.X.(*ssa.MakeSlice); ok {
				return true
			}
			if sl, ok := a.X.(*ssa.Slice); ok {
				addr = sl.X
				continue
			}
			addr = a.X
		case *ssa.Alloc:
			return true
		default:
			return false
		}
	}
}

// funcOrigins traces a function value to the functions it can denote. known=false when the origin is
// not visible locally (parameter, field, map, channel).
func funcOrigins(v ssa.Value, depth int) ([]*ssa.Function, bool) {
	if depth > 6 {
		return nil, false
	}
	switch x := v.(type) {
	case *ssa.Function:
		return []*ssa.Function{x}, true
	case *ssa.MakeClosure:
		return []*ssa.Function{x.Fn.(*ssa.Function)}, true
	case *ssa.Extract:
		if call, ok := x.Tuple.(*ssa.Call); ok {
			if c := call.Common().StaticCallee(); c != nil && inModule(c) && c.Blocks != nil {
				return returnOrigins(c, x.Index, depth+1)
			}
		}
		return funcOrigins(x.Tuple, depth+1)
	case *ssa.ChangeType:
		return funcOrigins(x.X, depth+1)
	case *ssa.Call:
		if c := x.Common().StaticCallee(); c != nil && !inModule(c) {
			// a function value produced by external code is external code
			return nil, true
		} else if c != nil && c.Blocks != nil {
			return returnOrigins(c, 0, depth+1)
		}
		return nil, false
	case *ssa.Phi:
		var all []*ssa.Function
		for _, e := range x.Edges {
			fs, ok := funcOrigins(e, depth+1)
			if !ok {
				return nil, false
			}
			all = append(all, fs...)
		}
		return all, true
	case *ssa.Const:
		return nil, true // nil function
	case *ssa.UnOp:
		// load from a local variable cell (possibly captured by closures)
		if cell := cellOf(x.X); cell != nil {
			var all []*ssa.Function
			for _, sv := range cellStores(cell) {
				fs, ok := funcOrigins(sv, depth+1)
				if !ok {
					return nil, false
				}
				all = append(all, fs...)
			}
			return all, true
		}
	case *ssa.FreeVar:
		// captured by value
		if b := freeVarBinding(x); b != nil {
			return funcOrigins(b, depth+1)
		}
	}
	return nil, false
}

// returnOrigins: origins of the idx-th result of a module function.
func returnOrigins(c *ssa.Function, idx int, depth int) ([]*ssa.Function, bool) {
	var all []*ssa.Function
	for _, b := range c.Blocks {
		for _, ins := range b.Instrs {
			if r, ok := ins.(*ssa.Return); ok && idx < len(r.Results) {
				fs, ok := funcOrigins(r.Results[idx], depth+1)
				if !ok {
					return nil, false
				}
				all = append(all, fs...)
			}
		}
	}
	return all, true
}

// cellOf: the Alloc a pointer value denotes, looking through closure captures.
func cellOf(v ssa.Value) *ssa.Alloc {
	switch x := v.(type) {
	case *ssa.Alloc:
		return x
	case *ssa.FreeVar:
		if b := freeVarBinding(x); b != nil {
			return cellOf(b)
		}
	}
	return nil
}

// freeVarBinding finds the value bound to a free variable, when its function is closed over exactly once.
func freeVarBinding(fv *ssa.FreeVar) ssa.Value {
	fn := fv.Parent()
	parent := fn.Parent()
	if parent == nil {
		return nil
	}
	idx := -1
	for i, f := range fn.FreeVars {
		if f == fv {
			idx = i
		}
	}
	var found ssa.Value
	n := 0
	for _, b := range parent.Blocks {
		for _, ins := range b.Instrs {
			if mc, ok := ins.(*ssa.MakeClosure); ok && mc.Fn == ssa.Value(fn) && idx >= 0 && idx < len(mc.Bindings) {
				found = mc.Bindings[idx]
				n++
			}
		}
	}
	if n == 1 {
		return found
	}
	return nil
}

// cellStores: every value stored into a local variable cell, in its function and in closures capturing it.
// Returns nil slice element-wise complete only when the cell's address does not escape otherwise.
func cellStores(cell *ssa.Alloc) []ssa.Value {
	var res []ssa.Value
	var visit func(fn *ssa.Function, addr ssa.Value)
	visit = func(fn *ssa.Function, addr ssa.Value) {
		for _, b := range fn.Blocks {
			for _, ins := range b.Instrs {
				switch x := ins.(type) {
				case *ssa.Store:
					if x.Addr == addr {
						res = append(res, x.Val)
					}
				case *ssa.MakeClosure:
					for i, bnd := range x.Bindings {
						if bnd == addr {
							cf := x.Fn.(*ssa.Function)
							visit(cf, cf.FreeVars[i])
						}
					}
				}
			}
		}
	}
	visit(cell.Parent(), cell)
	return res
}

func recvType(fn *ssa.Function) types.Type {
	return fn.Signature.Recv().Type()
}

// escapes: an external callee may write every object whose pointer/slice/map it receives.
func (m *modAnalysis) escapes(cc *ssa.CallCommon, d *ModSet) {
	for _, a := range cc.Args {
		m.reachableWrites(a.Type(), d, 0)
	}
}

func (m *modAnalysis) reachableWrites(t types.Type, d *ModSet, depth int) {
	if depth > 3 {
		return
	}
	switch x := types.Unalias(t).Underlying().(type) {
	case *types.Pointer:
		if _, ov := sortOverrides[typeKey(types.Unalias(x.Elem()))]; ov {
			return
		}
		m.wholeObject(x.Elem(), d)
		if st, ok := x.Elem().Underlying().(*types.Struct); ok {
			for i := 0; i < st.NumFields(); i++ {
				m.reachableWrites(st.Field(i).Type(), d, depth+1)
			}
		}
	case *types.Slice:
		d.add(m.u, compRef{kind: "elem", t: x.Elem()})
	case *types.Map:
		m.mapComps(t, d)
	}
}

// modSetOf is the least fixed point of the effect summaries over the static call graph.
func (m *modAnalysis) modSetOf(fn *ssa.Function) *ModSet {
	if t, ok := m.trans[fn]; ok {
		return t
	}
	// reachable set
	seen := map[*ssa.Function]bool{}
	var order []*ssa.Function
	stack := []*ssa.Function{fn}
	for len(stack) > 0 {
		f := stack[len(stack)-1]
		stack = stack[:len(stack)-1]
		if seen[f] {
			continue
		}
		seen[f] = true
		order = append(order, f)
		_, sites := m.directOf(f)
		for _, cs := range sites {
			stack = append(stack, cs.callee)
		}
	}
	sum := map[*ssa.Function]*ModSet{}
	for _, f := range order {
		if t, ok := m.trans[f]; ok {
			sum[f] = t
			continue
		}
		d, _ := m.directOf(f)
		c := newModSet()
		c.all, c.why = d.all, d.why
		for k, v := range d.comps {
			c.comps[k] = v
		}
		for i, mm := range d.byParam {
			c.byParam[i] = map[string]compRef{}
			for k, v := range mm {
				c.byParam[i][k] = v
			}
		}
		for i, mm := range d.byFree {
			c.byFree[i] = map[string]compRef{}
			for k, v := range mm {
				c.byFree[i][k] = v
			}
		}
		sum[f] = c
	}
	for round := 0; round < 50; round++ {
		changed := false
		for _, f := range order {
			if _, done := m.trans[f]; done {
				continue
			}
			s := sum[f]
			for _, cs := range m.calls[f] {
				cs2 := sum[cs.callee]
				if cs2 == nil {
					continue
				}
				if cs2.all && !s.all {
					s.all, s.why, changed = true, cs2.why+" via "+cs.callee.Name(), true
				}
				for _, c := range cs2.comps {
					if s.addRooted(m.u, c, "any", 0) {
						changed = true
					}
				}
				for i, mm := range cs2.byParam {
					k, idx := "any", 0
					if cs.args != nil && i < len(cs.args) && cs.args[i] != nil {
						k, idx = rootOf(cs.args[i], 0)
					}
					for _, c := range mm {
						if s.addRooted(m.u, c, k, idx) {
							changed = true
						}
					}
				}
				for i, mm := range cs2.byFree {
					k, idx := "any", 0
					if cs.bindings != nil && i < len(cs.bindings) {
						k, idx = rootOf(cs.bindings[i], 0)
					}
					for _, c := range mm {
						if s.addRooted(m.u, c, k, idx) {
							changed = true
						}
					}
				}
			}
		}
		if !changed {
			break
		}
	}
	for _, f := range order {
		if _, done := m.trans[f]; !done {
			// an "any" write subsumes rooted writes of the same component
			s := sum[f]
			for n := range s.comps {
				for _, mm := range s.byParam {
					delete(mm, n)
				}
				for _, mm := range s.byFree {
					delete(mm, n)
				}
			}
			m.trans[f] = s
		}
	}
	return m.trans[fn]
}

func (ms *ModSet) sorted() []string {
	var ks []string
	for k := range ms.comps {
		ks = append(ks, k)
	}
	sort.Strings(ks)
	return ks
}

// havocModSet forgets exactly the inferred components: whole components for writes at unknown references,
// single cells for writes inside the objects handed over as arguments (argVals aligned with the callee's params).
func (fr *Frame) havocModSet(ms *ModSet, st *State, why string, argVals ...*Val) {
	u := fr.u
	if ms.all {
		fr.havocAll(st, why)
		return
	}
	for _, c0 := range ms.sorted() {
		c, so := u.resolveComp(ms.comps[c0])
		u.compInit(c, so)
		if c == "WM" {
			if fr.dry {
				fr.setComp(st, "WM", "Int", "x")
				continue
			}
			n := u.S.fresh("WM@call", "Int")
			u.assert("(>= " + n + " " + u.comp(st, "WM", "Int") + ")")
			fr.setComp(st, "WM", "Int", n)
			continue
		}
		if fr.dry {
			fr.setComp(st, c, so, "x")
			continue
		}
		fr.setComp(st, c, so, u.S.fresh(c+"@call", so))
	}
	var idxs []int
	for i := range ms.byParam {
		idxs = append(idxs, i)
	}
	sort.Ints(idxs)
	for _, i := range idxs {
		var names []string
		for n := range ms.byParam[i] {
			names = append(names, n)
		}
		sort.Strings(names)
		for _, n := range names {
			cr := ms.byParam[i][n]
			c, so := u.resolveComp(cr)
			u.compInit(c, so)
			if _, whole := ms.comps[n]; whole {
				continue
			}
			var arg *Val
			if argVals != nil && i < len(argVals) {
				arg = argVals[i]
			}
			ref := ""
			if arg != nil && arg.S != "" && arg.Place == nil {
				switch {
				case u.S.sortOf(arg.T) == "Slice":
					ref = app("sl_arr", arg.S)
				case u.S.sortOf(arg.T) == "Int":
					ref = arg.S
				}
			}
			if arg != nil && arg.Place != nil && !arg.Place.Elem && len(arg.Place.Path) == 0 {
				ref = arg.Place.Base
			}
			if fr.dry {
				fr.setComp(st, c, so, "x")
				continue
			}
			if ref == "" {
				if arg != nil && arg.Place != nil {
					continue // interior pointer: havocEscapedPlaces forgets the enclosing cell
				}
				fr.setComp(st, c, so, u.S.fresh(c+"@call", so))
				continue
			}
			_, rng := splitArraySort(so)
			cell := u.S.fresh(c+"@cell", rng)
			fr.setComp(st, c, so, sto(u.comp(st, c, so), ref, cell))
		}
	}
	if len(ms.byFree) > 0 {
		for _, mm := range ms.byFree {
			for _, cr := range mm {
				c, so := u.resolveComp(cr)
				u.compInit(c, so)
				if fr.dry {
					fr.setComp(st, c, so, "x")
					continue
				}
				fr.setComp(st, c, so, u.S.fresh(c+"@call", so))
			}
		}
	}
}

// callbacks: an external callee may invoke methods of interface-typed arguments and function values.
func (m *modAnalysis) callbacks(cc *ssa.CallCommon, d *ModSet) {
	addAll := func(ms *ModSet) {
		if ms.all {
			d.all = true
		}
		for k, v := range ms.flat() {
			d.comps[k] = v
		}
	}
	for _, a := range cc.Args {
		switch t := types.Unalias(a.Type()).Underlying().(type) {
		case *types.Interface:
			// which concrete module types flow here is unknown: all module types implementing it
			for i := 0; i < t.NumMethods(); i++ {
				for _, impl := range m.impls[t.Method(i).Name()] {
					if types.Implements(recvType(impl), t) {
						addAll(m.modSetOf(impl))
					}
				}
			}
			if mi, ok := a.(*ssa.MakeInterface); ok {
				// concrete type known: its whole method set
				ms := m.P.Prog.MethodSets.MethodSet(mi.X.Type())
				for i := 0; i < ms.Len(); i++ {
					if fn := m.P.Prog.MethodValue(ms.At(i)); fn != nil && fn.Blocks != nil && inModule(fn) {
						addAll(m.modSetOf(fn))
					}
				}
			}
		case *types.Signature:
			if fs, known := funcOrigins(a, 0); known {
				for _, f := range fs {
					if inModule(f) && f.Blocks != nil {
						addAll(m.modSetOf(f))
					}
				}
			} else {
				for _, f := range m.bySig[types.TypeString(stripRecv(t), nil)] {
					addAll(m.modSetOf(f))
				}
			}
		}
	}
}

// flat forgets the rooting: every written component, as if written anywhere.
func (ms *ModSet) flat() map[string]compRef {
	res := map[string]compRef{}
	for k, v := range ms.comps {
		res[k] = v
	}
	for _, mm := range ms.byParam {
		for k, v := range mm {
			res[k] = v
		}
	}
	for _, mm := range ms.byFree {
		for k, v := range mm {
			res[k] = v
		}
	}
	return res
}
