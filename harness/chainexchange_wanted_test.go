package chainexchange

import (
	"context"
	"fmt"
	"testing"

	"github.com/filecoin-project/go-f3/gpbft"
	lru "github.com/hashicorp/golang-lru/v2"
)

// Replay harness for cacheAsDiscoveredChain: a chain the node asked for (placeholder in the wanted cache) that then
// arrives must replace the placeholder in the wanted cache, so that a flood of unsolicited chains larger than the
// discovered cache cannot evict it.
func TestVerifReplay(t *testing.T) {
	ctx := context.Background()
	p := &PubSubChainExchange{
		options: &options{
			maxWantedChainsPerInstance:     10,
			maxDiscoveredChainsPerInstance: 3,
		},
		chainsWanted:     map[uint64]*lru.Cache[gpbft.ECChainKey, *chainPortion]{},
		chainsDiscovered: map[uint64]*lru.Cache[gpbft.ECChainKey, *chainPortion]{},
	}
	mk := func(tag byte, n int) *gpbft.ECChain {
		ts := make([]*gpbft.TipSet, n)
		for i := range ts {
			ts[i] = &gpbft.TipSet{Epoch: int64(i), Key: []byte{tag, byte(i)}, PowerTable: gpbft.MakeCid([]byte("pt"))}
		}
		return &gpbft.ECChain{TipSets: ts}
	}
	want := mk(1, 2)
	if _, found := p.GetChainByInstance(ctx, 7, want.Key()); found {
		t.Fatal("unexpected hit before arrival")
	}
	p.cacheAsDiscoveredChain(ctx, Message{Instance: 7, Chain: want})
	w, _ := p.chainsWanted[7].Peek(want.Key())
	placeholder := w.IsPlaceholder()
	fmt.Printf("after arrival the wanted-cache entry is still a placeholder: %v\n", placeholder)
	for i := 0; i < 5; i++ {
		p.cacheAsDiscoveredChain(ctx, Message{Instance: 7, Chain: mk(byte(10+i), 2)})
	}
	_, found := p.GetChainByInstance(ctx, 7, want.Key())
	fmt.Printf("wanted chain retrievable after 5 unsolicited chains (discovered capacity 3): %v\n", found)
	if placeholder || !found {
		fmt.Println("REPLAY-CONFIRMED")
	}
}
