package sim

import (
	"fmt"
	"testing"

	"github.com/filecoin-project/go-f3/gpbft"
	"github.com/filecoin-project/go-f3/sim/signing"
)

// Replay harness for sim.(*simEC).NotifyDecision: a decision for an instance that does not exist must be
// recorded as an error (so that Simulation.Run fails), not crash the simulated EC.
func TestVerifReplay(t *testing.T) {
	ec := &simEC{networkName: "replay", verifier: signing.NewFakeBackend()}
	confirmed := false
	func() {
		defer func() {
			if r := recover(); r != nil {
				confirmed = true
				fmt.Printf("REPLAY-CONFIRMED simEC.NotifyDecision panicked for instance 2^63 instead of recording an error: %v\n", r)
			}
		}()
		ec.NotifyDecision(1, &gpbft.Justification{Vote: gpbft.Payload{Instance: 1 << 63}})
		if ec.Err() == nil {
			confirmed = true
			fmt.Println("REPLAY-CONFIRMED no error recorded for a decision at a non-existing instance")
		}
	}()
	if !confirmed {
		fmt.Println("REPLAY-NOT-REPRODUCED")
	}
}
