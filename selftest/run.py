#!/usr/bin/env python3
"""Must-fail / must-pass corpus for govc.

Each entry applies a patch to a scratch copy of /repo (outside /repo and /verif), runs the property check on it
and demands a VIOLATION naming one of the expected obligations (must-fail) or silence (must-pass).
Usage: run.py [--property ID] [--name substr] [-j N]
"""
import json, os, shutil, subprocess, sys, tempfile, concurrent.futures, time

HERE = os.path.dirname(os.path.abspath(__file__))

def run_one(e):
    sc = tempfile.mkdtemp(prefix="govc-selftest-")
    out = tempfile.mkdtemp(prefix="govc-selftest-out-")
    try:
        subprocess.run(["rsync", "-a", "--exclude=.git", "/repo/", sc + "/"], check=True)
        if e.get("patch"):
            r = subprocess.run(["patch", "-p1", "-s", "-d", sc, "-i", os.path.join(HERE, e["patch"])], capture_output=True, text=True)
            if r.returncode != 0:
                return e, False, "patch does not apply: " + r.stdout + r.stderr
        env = dict(os.environ, VERIF_REPO=sc, VERIF_OUT=out)
        t0 = time.time()
        r = subprocess.run(["/verif/bin/govc", "check", "--property", e["property"], "--tier", "quick"], capture_output=True, text=True, env=env)
        dt = time.time() - t0
        viol = [l for l in r.stdout.splitlines() if l.startswith("VIOLATION")]
        if e.get("kind", "must-fail") == "must-pass":
            ok = r.returncode == 0 and not viol
            return e, ok, f"exit={r.returncode} {dt:.0f}s " + " | ".join(viol)[:400]
        hit = [v for v in viol if any(x in v for x in e.get("expect", [""]))]
        ok = r.returncode == 1 and bool(hit)
        msg = f"exit={r.returncode} {dt:.0f}s violations={len(viol)} matched={len(hit)}"
        if not ok:
            msg += "\n   stdout: " + r.stdout[-600:] + "\n   stderr: " + r.stderr[-400:]
        return e, ok, msg
    finally:
        shutil.rmtree(sc, ignore_errors=True)
        shutil.rmtree(out, ignore_errors=True)

def main():
    corpus = json.load(open(os.path.join(HERE, "corpus.json")))
    args = sys.argv[1:]
    jobs = 2
    while args:
        a = args.pop(0)
        if a == "--property":
            p = args.pop(0); corpus = [e for e in corpus if e["property"] == p]
        elif a == "--name":
            n = args.pop(0); corpus = [e for e in corpus if n in e["name"]]
        elif a == "-j":
            jobs = int(args.pop(0))
    bad = 0
    with concurrent.futures.ThreadPoolExecutor(max_workers=jobs) as ex:
        for e, ok, msg in ex.map(run_one, corpus):
            print(("PASS " if ok else "FAIL ") + f"{e['property']} {e['name']} [{e.get('kind','must-fail')}]: {msg}", flush=True)
            bad += 0 if ok else 1
    print(f"{len(corpus)-bad}/{len(corpus)} corpus entries behave as expected")
    sys.exit(1 if bad else 0)

main()
