package main

import (
	"fmt"
	"go/types"
)

// verifyLemma proves a lemma from the contracts of the functions it calls (never their bodies).
func verifyLemma(P *Program, C *Contracts, l *Lemma) *Unit {
	u := newUnit(P, C, "lemma:"+l.Name)
	fr := &Frame{u: u, prefix: "", vals: nil, callCount: map[string]int{}}
	st := &State{comps: map[string]string{}}
	u.compInit("WM", "Int")
	pkg := u.pkgTypes(l.Pkg)
	env := &SpecEnv{fr: fr, vars: map[string]*Val{}, cur: st, old: st, pkg: pkg, errs: &u.problems}
	u.addAxioms(fr)
	vars := map[string]string{}
	for _, v := range l.Vars {
		t := env.lookupType(v.Type)
		if v.Type == "bool" {
			t = boolT
		}
		if t == nil {
			u.problems = append(u.problems, fmt.Sprintf("lemma %s: unknown type %s", l.Name, v.Type))
			continue
		}
		var val *Val
		if t == mathInt {
			n := "|$" + v.Name + "|"
			u.S.declare(n, "Int")
			val = &Val{T: mathInt, S: n, Math: true}
		} else {
			val = fr.freshValNamed(t, "$"+v.Name)
		}
		env.vars[v.Name] = val
		vars[v.Name] = val.S
	}
	nassert := 0
	ncall := map[string]int{}
	for _, s := range l.Steps {
		switch s.Kind {
		case "assume":
			u.assert(env.eval(s.Clause.Expr).S)
		case "assert":
			nassert++
			name := fmt.Sprintf("lemma:%s#assert:%s", l.Name, clauseID(s.Clause, nassert-1))
			f := env.eval(s.Clause.Expr).S
			o := u.oblige(name, "lemma", "lemma "+l.Name+": "+s.Clause.Text, f, s.Clause)
			o.Vars = vars
			u.assert(f)
		case "call":
			key := s.Callee
			if _, ok := C.Funcs[key]; !ok {
				key = l.Pkg + "." + s.Callee
			}
			c := C.Funcs[key]
			if c == nil {
				u.problems = append(u.problems, fmt.Sprintf("lemma %s: no contract for %s", l.Name, s.Callee))
				continue
			}
			fn := P.Funcs[c.Key]
			if fn == nil {
				u.problems = append(u.problems, fmt.Sprintf("lemma %s: function %s not found", l.Name, c.Key))
				continue
			}
			u.usedContracts[c.Key] = true
			var args []*Val
			for _, a := range s.Args {
				args = append(args, env.eval(a))
			}
			cenv := fr.contractEnv(c, fn, args, nil, st, st)
			ncall[s.Callee]++
			for k, rq := range c.Requires {
				f := cenv.eval(rq.Expr).S
				u.oblige(fmt.Sprintf("lemma:%s#call-requires:%s:%d:%s", l.Name, s.Callee, ncall[s.Callee], clauseID(rq, k)), "call-requires", "lemma "+l.Name+" calls "+s.Callee+" within its precondition: "+rq.Text, f, rq)
				u.assert(f)
			}
			// results are the lemma's variables
			var results []*Val
			for _, r := range s.Results {
				v, ok := env.vars[r]
				if !ok {
					u.problems = append(u.problems, fmt.Sprintf("lemma %s: result variable %s not declared", l.Name, r))
					continue
				}
				results = append(results, v)
			}
			penv := fr.contractEnv(c, fn, args, results, st, st)
			penv.atCallSite = true
			for _, en := range c.Ensures {
				skip := false
				penv.skip = &skip
				f := penv.eval(en.Expr).S
				if !skip {
					u.assert(f)
				}
			}
		}
	}
	cover := u.oblige("lemma:"+l.Name+"#hypotheses-sat", "cover", "the lemma's hypotheses are satisfiable", "true", nil)
	cover.ExpectSat = true
	for _, p := range u.problems {
		u.oblige("lemma:"+l.Name+"#contract-binding:"+shortHash(p), "contract-binding", p, "false", nil)
	}
	_ = types.Typ
	return u
}
