package main

import (
	"crypto/sha1"
	"fmt"
	"go/types"
	"math/big"
	"strings"
)

// Sorts holds the SMT declarations shared by all obligations of one verification unit.
type Sorts struct {
	sortDecls []string
	seen      map[string]bool
	decls     []string
	declSeen  map[string]bool
	// struct sort name -> field info
	structs map[string]*structInfo
	byType  map[string]string // types.TypeString -> sort
	strLits map[string]string
	fltLits map[string]string
	nbox   int
	boxTag map[string]int
	nfresh  int
	nameOwner map[string]string
}

type structInfo struct {
	Sort   string
	T      *types.Struct
	Named  types.Type
	Fields []fieldInfo
}
type fieldInfo struct {
	Name string
	Sort string
	T    types.Type
}

func newSorts() *Sorts {
	s := &Sorts{seen: map[string]bool{}, boxTag: map[string]int{}, declSeen: map[string]bool{}, structs: map[string]*structInfo{}, byType: map[string]string{}, strLits: map[string]string{}, fltLits: map[string]string{}}
	s.sortDecls = append(s.sortDecls,
		"(declare-datatypes ((Slice 0)) (((mk_Slice (sl_arr Int) (sl_off Int) (sl_len Int) (sl_cap Int)))))",
		"(declare-sort Str 0)",
		"(declare-sort Float 0)",
	)
	s.decls = append(s.decls,
		"(declare-fun strlen (Str) Int)",
		"(declare-const zero_Str Str)",
		"(declare-const zero_Float Float)",
		"(declare-fun f_add (Float Float) Float)",
		"(declare-fun f_sub (Float Float) Float)",
		"(declare-fun f_mul (Float Float) Float)",
		"(declare-fun f_div (Float Float) Float)",
		"(declare-fun f_neg (Float) Float)",
		"(declare-fun f_lt (Float Float) Bool)",
		"(declare-fun f_le (Float Float) Bool)",
		"(declare-fun i2f (Int) Float)",
		"(declare-fun f2i (Float) Int)",
		"(declare-fun str_cat (Str Str) Str)",
		"(declare-fun str_lt (Str Str) Bool)",
		"(declare-fun err_is (Int Int) Bool)",
	)
	return s
}

func mangle(s string) string {
	var b strings.Builder
	for _, c := range s {
		switch {
		case c >= 'a' && c <= 'z', c >= 'A' && c <= 'Z', c >= '0' && c <= '9', c == '_':
			b.WriteRune(c)
		case c == '.' || c == '/':
			b.WriteRune('_')
		case c == '*':
			b.WriteString("P")
		case c == '[':
			b.WriteString("L")
		case c == ']':
			b.WriteString("R")
		default:
			b.WriteString("_")
		}
	}
	return b.String()
}

func shortHash(s string) string {
	h := sha1.Sum([]byte(s))
	return fmt.Sprintf("%x", h[:4])
}

func typeKey(t types.Type) string {
	return types.TypeString(t, nil)
}

// shortTypeName gives a compact mangled name for a type.
func shortTypeName(t types.Type) string {
	s := types.TypeString(t, func(p *types.Package) string { return p.Name() })
	m := mangle(s)
	if len(m) > 48 {
		m = m[:40] + "_" + shortHash(typeKey(t))
	}
	return m
}

var sortOverrides = map[string]string{
	"github.com/filecoin-project/go-state-types/big.Int": "Int",
	"time.Time":     "Int",
	"time.Duration": "Int",
}

func (s *Sorts) declareSort(name string) {
	if s.seen[name] {
		return
	}
	s.seen[name] = true
	s.sortDecls = append(s.sortDecls, fmt.Sprintf("(declare-sort %s 0)", name))
	s.declare(fmt.Sprintf("zero_%s", name), name)
}

func (s *Sorts) declare(name, sort string) {
	if s.declSeen[name] {
		return
	}
	s.declSeen[name] = true
	s.decls = append(s.decls, fmt.Sprintf("(declare-const %s %s)", name, sort))
}

func (s *Sorts) declareFun(name string, args []string, ret string) {
	if s.declSeen[name] {
		return
	}
	s.declSeen[name] = true
	s.decls = append(s.decls, fmt.Sprintf("(declare-fun %s (%s) %s)", name, strings.Join(args, " "), ret))
}

// boxFun declares the MakeInterface encoding of a concrete type: injective, and tagged with the dynamic type so that
// boxes of different types differ.
func (s *Sorts) boxFun(tn, so string) string {
	fn := "mi_" + tn
	if s.declSeen[fn] {
		return fn
	}
	s.declareFun(fn, []string{so}, "Int")
	s.declareFun("mi_inv_"+tn, []string{"Int"}, so)
	s.declareFun("itype", []string{"Int"}, "Int")
	s.nbox++
	s.boxTag[fn] = s.nbox
	return fn
}

func (s *Sorts) fresh(prefix, sort string) string {
	s.nfresh++
	n := fmt.Sprintf("%s!%d", prefix, s.nfresh)
	n = "|" + n + "|"
	s.declare(n, sort)
	return n
}

// sortOf maps a Go type to its SMT sort.
func (s *Sorts) sortOf(t types.Type) string {
	t = types.Unalias(t)
	k := typeKey(t)
	if v, ok := s.byType[k]; ok {
		return v
	}
	if o, ok := sortOverrides[k]; ok {
		s.byType[k] = o
		return o
	}
	var r string
	switch u := t.Underlying().(type) {
	case *types.Basic:
		switch {
		case u.Info()&types.IsBoolean != 0:
			r = "Bool"
		case u.Info()&types.IsInteger != 0:
			r = "Int"
		case u.Info()&types.IsFloat != 0:
			r = "Float"
		case u.Info()&types.IsString != 0:
			r = "Str"
		case u.Kind() == types.UnsafePointer || u.Kind() == types.UntypedNil:
			r = "Int"
		case u.Info()&types.IsComplex != 0:
			r = "Float"
		default:
			r = "Int"
		}
	case *types.Pointer, *types.Map, *types.Chan, *types.Signature, *types.Interface:
		r = "Int"
	case *types.Slice:
		r = "Slice"
	case *types.Array:
		// arrays are opaque values; named array types share the sort of their underlying type so that
		// conversions between them (ECChainKey <- merkle.Digest) are the identity
		r = s.uniqueName("A_"+shortTypeName(u), typeKey(u))
		s.declareSort(r)
	case *types.Struct:
		name := s.uniqueName("S_"+shortTypeName(t), k)
		if _, named := t.(*types.Named); !named {
			name = "S_anon_" + shortHash(k)
		}
		s.byType[k] = name // break cycles (none expected: pointers are Int)
		si := &structInfo{Sort: name, T: u, Named: t}
		for i := 0; i < u.NumFields(); i++ {
			f := u.Field(i)
			si.Fields = append(si.Fields, fieldInfo{Name: f.Name(), Sort: s.sortOf(f.Type()), T: f.Type()})
		}
		s.structs[name] = si
		var fs []string
		for i, f := range si.Fields {
			fs = append(fs, fmt.Sprintf("(%s %s)", s.selName(name, i), f.Sort))
		}
		s.seen[name] = true
		s.sortDecls = append(s.sortDecls, fmt.Sprintf("(declare-datatypes ((%s 0)) (((mk_%s %s))))", name, name, strings.Join(fs, " ")))
		r = name
	case *types.Tuple:
		r = "TUPLE"
	case *types.TypeParam:
		r = "Int"
	default:
		r = "Int"
	}
	s.byType[k] = r
	return r
}

// typeName is a unique mangled name of a Go type, used to name heap components.
func (s *Sorts) typeName(t types.Type) string {
	t = types.Unalias(t)
	return s.uniqueName("T_"+shortTypeName(t), "type:"+typeKey(t))[2:]
}

// uniqueName keeps sort names distinct when two packages share a name.
func (s *Sorts) uniqueName(name, key string) string {
	if s.nameOwner == nil {
		s.nameOwner = map[string]string{}
	}
	if o, ok := s.nameOwner[name]; ok && o != key {
		name = name + "_" + shortHash(key)
	}
	s.nameOwner[name] = key
	return name
}

func (s *Sorts) selName(sort string, i int) string {
	return fmt.Sprintf("%s_f%d", sort, i)
}

// zero value term of a type
func (s *Sorts) zeroOf(t types.Type) string {
	so := s.sortOf(t)
	return s.zeroOfSort(so)
}

func (s *Sorts) zeroOfSort(so string) string {
	switch so {
	case "Int":
		return "0"
	case "Bool":
		return "false"
	case "Slice":
		return "(mk_Slice 0 0 0 0)"
	case "Str":
		return "zero_Str"
	case "Float":
		return "zero_Float"
	}
	if si, ok := s.structs[so]; ok {
		if len(si.Fields) == 0 {
			return "mk_" + so
		}
		var fs []string
		for _, f := range si.Fields {
			fs = append(fs, s.zeroOfSort(f.Sort))
		}
		return fmt.Sprintf("(mk_%s %s)", so, strings.Join(fs, " "))
	}
	if strings.HasPrefix(so, "(Array ") {
		// const array of zero of the range sort
		_, rng := splitArraySort(so)
		z := s.zeroOfSort(rng)
		if strings.Contains(z, "zero_") {
			// not a value for the solvers' (as const ...): use an axiomatised constant array
			n := "zarr_" + mangle(so)
			if !s.declSeen[n] {
				s.declare(n, so)
				dom, _ := splitArraySort(so)
				s.decls = append(s.decls, fmt.Sprintf("(assert (forall ((q!z %s)) (! (= (select %s q!z) %s) :pattern ((select %s q!z)))))", dom, n, z, n))
			}
			return n
		}
		return fmt.Sprintf("((as const %s) %s)", so, z)
	}
	return "zero_" + so
}

func splitArraySort(so string) (dom, rng string) {
	// "(Array D R)" where D and R may be nested
	inner := strings.TrimSuffix(strings.TrimPrefix(so, "(Array "), ")")
	depth := 0
	for i, c := range inner {
		switch c {
		case '(':
			depth++
		case ')':
			depth--
		case ' ':
			if depth == 0 {
				return inner[:i], inner[i+1:]
			}
		}
	}
	return inner, ""
}

func (s *Sorts) strLit(v string) string {
	if v == "" {
		return "zero_Str"
	}
	if n, ok := s.strLits[v]; ok {
		return n
	}
	n := fmt.Sprintf("strlit_%d", len(s.strLits))
	s.strLits[v] = n
	s.declare(n, "Str")
	return n
}

func (s *Sorts) fltLit(v string) string {
	if n, ok := s.fltLits[v]; ok {
		return n
	}
	n := fmt.Sprintf("fltlit_%d", len(s.fltLits))
	s.fltLits[v] = n
	s.declare(n, "Float")
	return n
}

// ---- integer helpers ----

func intLit(v *big.Int) string {
	if v.Sign() < 0 {
		return "(- " + new(big.Int).Neg(v).String() + ")"
	}
	return v.String()
}

func intLit64(v int64) string { return intLit(big.NewInt(v)) }

type intRange struct {
	ok       bool
	min, max *big.Int
	bits     int
	signed   bool
}

func rangeOfBasic(t types.Type) intRange {
	t = types.Unalias(t)
	if o, ok := sortOverrides[typeKey(t)]; ok && o == "Int" {
		if typeKey(t) == "time.Duration" {
			return mkRange(64, true)
		}
		return intRange{}
	}
	b, ok := t.Underlying().(*types.Basic)
	if !ok || b.Info()&types.IsInteger == 0 {
		return intRange{}
	}
	switch b.Kind() {
	case types.Int, types.Int64:
		return mkRange(64, true)
	case types.Int32:
		return mkRange(32, true)
	case types.Int16:
		return mkRange(16, true)
	case types.Int8:
		return mkRange(8, true)
	case types.Uint, types.Uint64, types.Uintptr:
		return mkRange(64, false)
	case types.Uint32:
		return mkRange(32, false)
	case types.Uint16:
		return mkRange(16, false)
	case types.Uint8:
		return mkRange(8, false)
	}
	return intRange{}
}

func mkRange(bits int, signed bool) intRange {
	one := big.NewInt(1)
	if signed {
		max := new(big.Int).Lsh(one, uint(bits-1))
		min := new(big.Int).Neg(max)
		max.Sub(max, one)
		return intRange{true, min, max, bits, true}
	}
	max := new(big.Int).Lsh(one, uint(bits))
	max.Sub(max, one)
	return intRange{true, big.NewInt(0), max, bits, false}
}

func (r intRange) inRange(term string) string {
	return fmt.Sprintf("(and (<= %s %s) (<= %s %s))", intLit(r.min), term, term, intLit(r.max))
}

func (r intRange) modulus() *big.Int {
	return new(big.Int).Lsh(big.NewInt(1), uint(r.bits))
}

// wrap gives the Go wrap-around of a mathematical value, for a value that is at most one modulus out of range.
func (r intRange) wrap1(term string) string {
	m := r.modulus().String()
	return fmt.Sprintf("(ite (> %s %s) (- %s %s) (ite (< %s %s) (+ %s %s) %s))", term, intLit(r.max), term, m, term, intLit(r.min), term, m, term)
}

// wrapMod gives the Go wrap-around for arbitrary mathematical values.
func (r intRange) wrapMod(term string) string {
	m := r.modulus().String()
	if !r.signed {
		return fmt.Sprintf("(mod %s %s)", term, m)
	}
	half := new(big.Int).Lsh(big.NewInt(1), uint(r.bits-1)).String()
	return fmt.Sprintf("(- (mod (+ %s %s) %s) %s)", term, half, m, half)
}

// smtTruncDiv / smtTruncRem: Go's truncating division in terms of SMT's floor-style div/mod (b != 0).
func smtTruncDiv(a, b string) string {
	// SMT-LIB div: a = b*q + r with 0 <= r < |b|.
	// Go: truncation toward zero.
	return fmt.Sprintf("(ite (>= %s 0) (div %s %s) (- (div (- %s) %s)))", a, a, b, a, b)
}

func smtTruncRem(a, b string) string {
	return fmt.Sprintf("(- %s (* %s %s))", a, b, smtTruncDiv(a, b))
}

func and(xs ...string) string {
	var ys []string
	for _, x := range xs {
		if x == "true" || x == "" {
			continue
		}
		if x == "false" {
			return "false"
		}
		ys = append(ys, x)
	}
	switch len(ys) {
	case 0:
		return "true"
	case 1:
		return ys[0]
	}
	return "(and " + strings.Join(ys, " ") + ")"
}

func or(xs ...string) string {
	var ys []string
	for _, x := range xs {
		if x == "false" || x == "" {
			continue
		}
		if x == "true" {
			return "true"
		}
		ys = append(ys, x)
	}
	switch len(ys) {
	case 0:
		return "false"
	case 1:
		return ys[0]
	}
	return "(or " + strings.Join(ys, " ") + ")"
}

func not(x string) string {
	switch x {
	case "true":
		return "false"
	case "false":
		return "true"
	}
	if strings.HasPrefix(x, "(not ") && balanced(x[5:len(x)-1]) {
		return x[5 : len(x)-1]
	}
	return "(not " + x + ")"
}

func balanced(s string) bool {
	d := 0
	for _, c := range s {
		if c == '(' {
			d++
		} else if c == ')' {
			d--
			if d < 0 {
				return false
			}
		}
	}
	return d == 0
}

func implies(a, b string) string {
	if a == "true" {
		return b
	}
	if b == "true" || a == "false" {
		return "true"
	}
	return "(=> " + a + " " + b + ")"
}

func ite(c, a, b string) string {
	if c == "true" {
		return a
	}
	if c == "false" {
		return b
	}
	if a == b {
		return a
	}
	return "(ite " + c + " " + a + " " + b + ")"
}

func eq(a, b string) string {
	if a == b {
		return "true"
	}
	return "(= " + a + " " + b + ")"
}

func sel(a, i string) string     { return "(select " + a + " " + i + ")" }
func sto(a, i, v string) string  { return "(store " + a + " " + i + " " + v + ")" }
func app(f string, xs ...string) string {
	if len(xs) == 0 {
		return f
	}
	return "(" + f + " " + strings.Join(xs, " ") + ")"
}
