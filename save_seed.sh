#!/bin/bash
# usage: save_seed.sh <worktree seed dir> <dest name e.g. C11-4> <detected true|false> <detected_by text> <confirm text>
SD=$1; NAME=$2; DET=$3; BY=$4; CONF=$5
D=/verif/seeded/$NAME; mkdir -p $D
cp $SD/patch.diff $SD/demo_test.go $D/
python3 - "$SD/meta.json" "$D/meta.json" "$DET" "$BY" "$CONF" <<'P'
import json,sys
m=json.load(open(sys.argv[1]))
m['source']='independent sub-agent given only the property text and a scratch worktree (round 4)'
m['check_run']='git -C /repo apply patch.diff; /verif/bin/govc check --property %s --tier quick; git -C /repo apply -R patch.diff' % m['property']
m['detected']= sys.argv[3]=='true'
m['detected_by']=[x for x in sys.argv[4].split('|') if x]
m['confirmed_by_me']=sys.argv[5]
json.dump(m,open(sys.argv[2],'w'),indent=1)
P
echo saved $D
