#!/bin/bash
# usage: confirm_seed.sh <worktree> <seeddir> <demo pkg dir (relative)> <packages to test...>
# Confirms: patch applies & builds; listed packages' existing tests pass with it; demo fails with it and passes without it.
export GOFLAGS=-mod=mod GOPROXY=off
WT=$1; SD=$2; PKG=$3; shift 3
cd $WT || exit 2
git checkout -q -- . ':!*zz_verif_contracts.go' 2>/dev/null
git apply $SD/patch.diff || { echo "APPLY-FAILED"; exit 1; }
go build ./... || { echo "BUILD-FAILED"; git checkout -q -- .; exit 1; }
echo "--- existing tests with the change:"
go test -vet=off -count=1 "$@" 2>&1 | grep -v "no test files" | tail -n 12
cp $SD/demo_test.go $PKG/zz_seed_demo_test.go
echo "--- demo with the change (must FAIL):"
go test -vet=off -count=1 -run "$(grep -o 'func Test[A-Za-z0-9_]*' $SD/demo_test.go | sed 's/func //' | paste -sd'|')" ./$PKG 2>&1 | tail -n 4
git apply -R $SD/patch.diff
echo "--- demo without the change (must PASS):"
go test -vet=off -count=1 -run "$(grep -o 'func Test[A-Za-z0-9_]*' $SD/demo_test.go | sed 's/func //' | paste -sd'|')" ./$PKG 2>&1 | tail -n 3
rm -f $PKG/zz_seed_demo_test.go
