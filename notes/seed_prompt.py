#!/usr/bin/env python3
"""Prints the prompt given to an independent seeding sub-agent for one property (only the property text + worktree)."""
import json, sys
pid = sys.argv[1]; wt = f"/tmp/wt-{pid.lower()}" + (sys.argv[3] if len(sys.argv) > 3 else ""); n = int(sys.argv[2]) if len(sys.argv) > 2 else 3
p = [json.loads(l) for l in open('/verif/properties.jsonl') if json.loads(l)['id'] == pid][0]
files = ", ".join(p['anchors']['files'])
mech = "; ".join(f"{m['name']} ({m['where']})" for m in p['anchors'].get('mechanism', []))
print(f"""You are helping test a verification framework by producing realistic, subtle regressions ("seeded bugs") in a Go codebase. Work ONLY inside the git worktree at {wt} (a checkout of filecoin-project/go-f3). Do not read or write anything under /verif or /repo. Some files named zz_verif_contracts.go show up as deleted in `git status` — leave that as it is and never include those files in your patches.

Environment: no network. Before every go command run: `export GOFLAGS=-mod=mod GOPROXY=off`. The repo needs Go 1.24.6 which is auto-selected; do NOT set GOSUMDB=off. Run package tests with e.g. `cd {wt} && go test -vet=off -count=1 ./gpbft/` (most packages take seconds; the root package `.` ~90 s; ./test ~4 min and is optional; three DNS tests in ./observer always fail offline — ignore them). Other jobs share this machine, so a timing-sensitive test may flake under load: re-run it alone before concluding anything.

THE PROPERTY ({pid} "{p['title']}"):
"{p['statement']}"
Quantified over: {p['quantifier']['text']}
Relevant files: {files}
Mechanisms: {mech}

YOUR TASK: produce {n} different code changes, each of which (a) breaks this property, (b) still compiles (`go build ./...`), (c) still passes the existing test suite of the packages it touches and of the packages that import them (run them; also run the root package `.` once per change if it could be affected), and (d) needs something specific to manifest — a particular interleaving, a crash or fault at a particular point, a multi-step sequence of operations, an unusual or boundary input, or two cooperating sites that each look fine alone — rather than something ordinary use would expose at once. Make them look like plausible refactors, simplifications or "optimisations", not sabotage, and put them in different functions from each other.

For each change N in 1..{n} create directory {wt}/seeded/N/ containing:
 - patch.diff : the change against HEAD, produced with `git diff HEAD -- . ':!seeded' ':!*zz_verif_contracts.go' > seeded/N/patch.diff` while only that change is applied;
 - demo_test.go : a Go test that FAILS with the change applied and PASSES without it. First line: a comment `// copy into: <package directory relative to the repo root>`; the package clause must match that directory (in-package tests may use unexported identifiers);
 - meta.json : {{"property":"{pid}","what":"one-sentence description","needs":"what specific input/condition/sequence it needs to manifest","ran":"the commands you ran and their outcome"}}.
Work on one change at a time: apply it, run the tests, write the demo, verify the demo fails with and passes without the change (toggle with `git apply -R seeded/N/patch.diff` and `git apply seeded/N/patch.diff`; do NOT use `git stash`: the stash is shared with other worktrees of this repository), save the three files, then revert the source change before starting the next. At the end the worktree's tracked source files must be unmodified and only seeded/ is new.

Final report: for each change, the function touched, a one-line description, and explicit confirmation of (b), (c), demo-fails-with, demo-passes-without.""")
