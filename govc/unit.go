package main

import (
	"fmt"
	"go/types"
	"sort"
	"strings"

	"golang.org/x/tools/go/ssa"
)

// verifyFunc generates all obligations of one function under contract.
func verifyFunc(P *Program, C *Contracts, fc *FuncContract) *Unit {
	u := newUnit(P, C, shortKey(fc.Key))
	u.fc = fc
	fn := P.Funcs[fc.Key]
	if fn == nil {
		u.oblige(u.Name+"#contract-binding", "contract-binding", "function "+fc.Key+" exists in the working tree", "false", nil)
		return u
	}
	if fn.Blocks == nil {
		u.oblige(u.Name+"#contract-binding", "contract-binding", "function "+fc.Key+" has a body", "false", nil)
		return u
	}
	fr := &Frame{u: u, fn: fn, fc: fc, top: true}
	st := &State{comps: map[string]string{}}
	var args []*Val
	vars := map[string]string{}
	for _, p := range fn.Params {
		v := fr.freshValNamed(p.Type(), "$"+p.Name())
		args = append(args, v)
		vars[p.Name()] = v.S
	}
	u.addAxioms(fr)
	// preconditions
	env := fr.contractEnv(fc, fn, args, nil, st, st)
	var reqs []string
	for _, rq := range fc.Requires {
		f := env.eval(rq.Expr).S
		reqs = append(reqs, f)
		u.assert(f)
	}
	// all pointer parameters and everything read from the entry heap was allocated before entry
	for _, a := range args {
		if a.S != "" && u.S.sortOf(a.T) == "Int" && isRefType(a.T) {
			u.assert("(< " + a.S + " WM@0)")
			u.assert("(>= " + a.S + " 0)")
		}
		if a.S != "" && u.S.sortOf(a.T) == "Slice" {
			u.assert("(< (sl_arr " + a.S + ") WM@0)")
		}
	}
	u.compInit("WM", "Int")
	cover := u.oblige(u.Name+"#requires-sat", "cover", "the precondition is satisfiable", "true", nil)
	cover.ExpectSat = true
	cover.Vars = vars
	if fc.HasMod && !fc.ModAll && !fc.ModAuto {
		fr.allow = u.computeAllowed(fr, fc, fn, args, st)
	}
	fr.run("true", st, args)
	fr.checkLatches()
	// postconditions at every return
	if len(fr.rets) == 0 {
		u.note("function %s has no reachable return", fc.Key)
	}
	var reachAny []string
	for _, r := range fr.rets {
		reachAny = append(reachAny, r.reach)
	}
	// merged result terms, for counterexample projection and replay
	rinfo := u.replayInfo(fr, fn, args, vars)
	for _, o := range u.obls {
		if o.Kind == "panic" && rinfo != nil {
			o.Vars = vars
			o.RInfo = rinfo
		}
	}
	for k, en := range fc.Ensures {
		var parts []string
		for _, r := range fr.rets {
			e := fr.contractEnv(fc, fn, args, r.results, r.st, st)
			parts = append(parts, implies(r.reach, e.eval(en.Expr).S))
		}
		o := u.oblige(fmt.Sprintf("%s#ensures:%s", u.Name, clauseID(en, k)), "ensures", "postcondition: "+en.Text, and(parts...), en)
		o.Vars = vars
		o.RInfo = rinfo
	}
	if fc.HasMod && !fc.ModAll && !fc.ModAuto {
		u.frameObligation(fr, fc, fn, args, st)
	}
	if len(fr.rets) > 0 {
		o := u.oblige(u.Name+"#reach-end", "cover", "some return is reachable under the contract", or(reachAny...), nil)
		o.ExpectSat = true
	}
	if fc.Harness != "" && fn.Pkg != nil {
		for _, o := range u.obls {
			if !o.ExpectSat {
				o.Harness = fc.Harness
				o.HarnessPkg = fn.Pkg.Pkg.Path()
			}
		}
	}
	for _, cs := range fc.Calls {
		if !cs.Hit {
			u.problems = append(u.problems, fmt.Sprintf("call-site block 'at %s %d' matched no call in %s", cs.Callee, cs.Ordinal, fc.Key))
		}
	}
	seenProblem := map[string]bool{}
	for _, p := range u.problems {
		if seenProblem[p] {
			continue
		}
		seenProblem[p] = true
		u.oblige(u.Name+"#contract-binding:"+shortHash(p), "contract-binding", "contract refers to the code as it is: "+p, "false", nil)
	}
	return u
}

func isRefType(t types.Type) bool {
	switch types.Unalias(t).Underlying().(type) {
	case *types.Pointer, *types.Map, *types.Chan:
		return true
	}
	return false
}

func shortKey(key string) string {
	return strings.TrimPrefix(strings.TrimPrefix(key, modPath+"/"), modPath+".")
}

// addAxioms asserts the contract files' axioms (assumptions, listed in evidence).
func (u *Unit) addAxioms(fr *Frame) {
	for _, ax := range u.C.Axioms {
		env := &SpecEnv{fr: fr, vars: map[string]*Val{}, cur: &State{comps: map[string]string{}}, pkg: u.pkgTypes(ax.Pkg), errs: &u.problems}
		u.assert(env.eval(ax.Body.Expr).S)
	}
}

func (u *Unit) pkgTypes(path string) *types.Package {
	if p, ok := u.P.ByPath[path]; ok {
		return p.Types
	}
	return nil
}

// computeAllowed evaluates the modifies clause in the entry state: per component, the cells that may change.
func (u *Unit) computeAllowed(fr *Frame, fc *FuncContract, fn *ssa.Function, args []*Val, st0 *State) map[string]*allowedSet {
	allow := map[string]*allowedSet{}
	get := func(c string) *allowedSet {
		if allow[c] == nil {
			allow[c] = &allowedSet{}
		}
		return allow[c]
	}
	env := fr.contractEnv(fc, fn, args, nil, st0, st0)
	for _, m := range fc.Modifies {
		text := strings.TrimSpace(m.Text)
		contents := strings.HasSuffix(text, "[]")
		text = strings.TrimSuffix(text, "[]")
		e, err := parseSpecExpr(text)
		if err != nil {
			continue
		}
		if contents {
			v := env.eval(e)
			switch t := types.Unalias(v.T).Underlying().(type) {
			case *types.Map:
				hn, _, vn, _ := u.mapComps(t)
				get(hn).refs = append(get(hn).refs, v.S)
				get(vn).refs = append(get(vn).refs, v.S)
				get("ML").refs = append(get("ML").refs, v.S)
			case *types.Slice:
				cn, _ := u.elemComp(t.Elem())
				get(cn).refs = append(get(cn).refs, app("sl_arr", v.S))
			case *types.Pointer:
				pl := fr.placeOf(v)
				u.allowPlace(pl, get)
			}
			continue
		}
		pl := env.placeExpr(e)
		if pl != nil {
			u.allowPlace(pl, get)
		}
	}
	return allow
}

// frameFormula: component c is unchanged between terms ini and fin outside the allowed cells, for
// references that existed at function entry.
func frameFormula(c, fin, ini string, a *allowedSet) string {
	if fin == ini {
		return "true"
	}
	var ex []string
	if a != nil {
		for _, ref := range a.refs {
			ex = append(ex, not(eq("q!r", ref)))
		}
	}
	guard := and(append([]string{"(< q!r WM@0)", "(>= q!r 0)"}, ex...)...)
	if strings.HasPrefix(c, "E_") && a != nil && len(a.elems) > 0 {
		var exe []string
		for _, e := range a.elems {
			exe = append(exe, not(and(eq("q!r", e[0]), eq("q!j", e[1]))))
		}
		body := fmt.Sprintf("(=> %s (= (select (select %s q!r) q!j) (select (select %s q!r) q!j)))", and(guard, and(exe...)), fin, ini)
		if !strings.ContainsAny(fin, "( ") {
			body = fmt.Sprintf("(! %s :pattern ((select (select %s q!r) q!j)))", body, fin)
		}
		return "(forall ((q!r Int) (q!j Int)) " + body + ")"
	}
	body := fmt.Sprintf("(=> %s (= (select %s q!r) (select %s q!r)))", guard, fin, ini)
	if !strings.ContainsAny(fin, "( ") {
		body = fmt.Sprintf("(! %s :pattern ((select %s q!r)))", body, fin)
	}
	return "(forall ((q!r Int)) " + body + ")"
}

// frameObligation: every heap component is unchanged outside the declared modifies set, for
// references that existed at entry.
func (u *Unit) frameObligation(fr *Frame, fc *FuncContract, fn *ssa.Function, args []*Val, st0 *State) {
	allow := fr.allow
	var comps []string
	for c := range u.compSort {
		if c == "WM" || strings.HasPrefix(c, "VIS_") {
			continue
		}
		comps = append(comps, c)
	}
	sort.Strings(comps)
	// one obligation per component that the body (or a callee) may have changed
	n := 0
	for _, c := range comps {
		so := u.compSort[c]
		var parts []string
		for _, r := range fr.rets {
			f := frameFormula(c, u.comp(r.st, c, so), c+"@0", allow[c])
			if f != "true" {
				parts = append(parts, implies(r.reach, f))
			}
		}
		if len(parts) == 0 {
			continue
		}
		n++
		u.oblige(u.Name+"#modifies:"+c, "modifies", "component "+c+" does not change outside the modifies clause", and(parts...), nil)
	}
	if n == 0 {
		u.oblige(u.Name+"#modifies", "modifies", "nothing outside the modifies clause changes (no component is written)", "true", nil)
	}
}

type allowedSet struct {
	refs  []string    // whole cell at these refs
	elems [][2]string // (arr, idx) for element components
}

func (u *Unit) allowPlace(pl *Place, get func(string) *allowedSet) {
	switch {
	case pl.Elem:
		cn, _ := u.elemComp(pl.BaseT)
		get(cn).elems = append(get(cn).elems, [2]string{pl.Base, pl.Idx})
	case isStructVal(pl.BaseT):
		if len(pl.Path) > 0 {
			cn, _ := u.fieldComp(pl.BaseT, pl.Path[0])
			get(cn).refs = append(get(cn).refs, pl.Base)
			return
		}
		so := u.S.sortOf(pl.BaseT)
		for i := range u.S.structs[so].Fields {
			cn, _ := u.fieldComp(pl.BaseT, i)
			get(cn).refs = append(get(cn).refs, pl.Base)
		}
	default:
		cn, _ := u.ptrComp(pl.BaseT)
		get(cn).refs = append(get(cn).refs, pl.Base)
	}
}

// replayInfo declares one merged term per result and describes how to call the function, when the
// function is a plain function over scalars.
func (u *Unit) replayInfo(fr *Frame, fn *ssa.Function, args []*Val, vars map[string]string) *ReplayInfo {
	if fn.Signature.Recv() != nil || fn.Parent() != nil || fn.Pkg == nil || fn.TypeParams().Len() > 0 || len(fn.TypeArgs()) > 0 {
		return nil
	}
	ri := &ReplayInfo{PkgPath: fn.Pkg.Pkg.Path(), Func: fn.Name()}
	q := func(p *types.Package) string { return "" }
	for i, p := range fn.Params {
		k := basicKind(p.Type())
		if k == "" {
			return nil
		}
		ri.Params = append(ri.Params, replayVar{Name: p.Name(), Type: types.TypeString(p.Type(), q), Term: args[i].S, Kind: k})
	}
	res := fn.Signature.Results()
	for i := 0; i < res.Len(); i++ {
		k := basicKind(res.At(i).Type())
		if k == "" {
			return nil
		}
		name := fmt.Sprintf("|$ret%d|", i)
		u.S.declare(name, u.S.sortOf(res.At(i).Type()))
		for _, r := range fr.rets {
			if i < len(r.results) {
				u.assert(implies(r.reach, eq(name, r.results[i].S)))
			}
		}
		vars[fmt.Sprintf("$ret%d", i)] = name
		ri.Results = append(ri.Results, replayVar{Name: fmt.Sprintf("ret%d", i), Type: types.TypeString(res.At(i).Type(), q), Term: name, Kind: k})
	}
	return ri
}
