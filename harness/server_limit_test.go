package certexchange

import (
	"bufio"
	"fmt"
	"context"
	"io"
	"testing"

	"github.com/filecoin-project/go-f3/certs"
	"github.com/filecoin-project/go-f3/certstore"
	"github.com/filecoin-project/go-f3/gpbft"
	"github.com/ipfs/go-datastore"
	ds_sync "github.com/ipfs/go-datastore/sync"
	mocknetwork "github.com/libp2p/go-libp2p/p2p/net/mock"
)

// Replay harness for certexchange.(*Server).handleRequest: the server must never send more than Limit certificates.
func TestVerifReplay(t *testing.T) {
	ctx := context.Background()
	mocknet := mocknetwork.New()
	h1, _ := mocknet.GenPeer()
	h2, _ := mocknet.GenPeer()
	_ = mocknet.LinkAll()
	pt := gpbft.PowerEntries{{ID: 1, Power: gpbft.NewStoragePower(10), PubKey: []byte("k")}}
	pcid, _ := certs.MakePowerTableCID(pt)
	supp := gpbft.SupplementalData{PowerTable: pcid}
	cs, err := certstore.CreateStore(ctx, ds_sync.MutexWrap(datastore.NewMapDatastore()), 0, pt)
	if err != nil {
		t.Fatal(err)
	}
	for i := uint64(0); i < 10; i++ {
		c := &certs.FinalityCertificate{GPBFTInstance: i, SupplementalData: supp,
			ECChain: &gpbft.ECChain{TipSets: []*gpbft.TipSet{{Epoch: 0, Key: gpbft.TipSetKey("tsk0"), PowerTable: pcid}}}}
		if err := cs.Put(ctx, c); err != nil {
			t.Fatal(err)
		}
	}
	const nn = "probe"
	server := Server{NetworkName: nn, Host: h1, Store: cs}
	if err := server.Start(ctx); err != nil {
		t.Fatal(err)
	}
	defer server.Stop(ctx)
	_ = mocknet.ConnectAllButSelf()
	bad := 0
	for _, limit := range []uint64{0, 1, 3} {
		stream, err := h2.NewStream(ctx, h1.ID(), FetchProtocolName(nn))
		if err != nil {
			t.Fatal(err)
		}
		bw := bufio.NewWriter(stream)
		req := Request{FirstInstance: 2, Limit: limit}
		_ = req.MarshalCBOR(bw)
		_ = bw.Flush()
		_ = stream.CloseWrite()
		br := bufio.NewReader(stream)
		var hdr ResponseHeader
		if err := hdr.UnmarshalCBOR(br); err != nil {
			t.Fatal(err)
		}
		n := 0
		var insts []uint64
		for {
			var c certs.FinalityCertificate
			err := c.UnmarshalCBOR(br)
			if err == io.EOF {
				break
			}
			if err != nil {
				t.Fatal(err)
			}
			n++
			insts = append(insts, c.GPBFTInstance)
		}
		fmt.Printf("first=2 limit=%d pending=%d -> server sent %d certificates %v\n", limit, hdr.PendingInstance, n, insts)
		if uint64(n) > limit {
			bad++
		}
		_ = stream.Close()
	}
	if bad > 0 {
		fmt.Println("REPLAY-CONFIRMED the server sent more certificates than the request's limit")
	} else {
		fmt.Println("REPLAY-NOT-REPRODUCED")
	}
}
