#!/bin/bash
# Copies the contract files (comment-only, //go:build verif) from /verif/contracts into /repo.
set -e
cd /verif/contracts
find . -name zz_verif_contracts.go | while read f; do
  mkdir -p /repo/$(dirname $f)
  cp $f /repo/$f
done
cd /repo && git status --short | head
