package main

import (
	"fmt"
	"os"
	"go/ast"
	"go/constant"
	"go/token"
	"go/types"
	"math/big"
	"strings"

	"golang.org/x/tools/go/ssa"
)

func debugIdent(d *ssa.DebugRef) string {
	if id, ok := d.Expr.(*ast.Ident); ok {
		// go/ssa also records the selected field of x.f under the identifier f: that is not a local named f
		if v, ok := d.Object().(*types.Var); ok && v.IsField() {
			return ""
		}
		return id.Name
	}
	return ""
}

// val returns the symbolic value of an SSA value in this frame.
func (fr *Frame) val(v ssa.Value) *Val {
	if x, ok := fr.vals[v]; ok {
		return x
	}
	u := fr.u
	switch v := v.(type) {
	case *ssa.Const:
		return fr.constVal(v)
	case *ssa.Global:
		name := v.String()
		return &Val{T: v.Type(), S: u.globalRef("global:" + name)}
	case *ssa.Function:
		return &Val{T: v.Type(), S: u.globalRef("func:" + funcKey(v))}
	case *ssa.FreeVar:
		if fr.freeVars != nil {
			if x, ok := fr.freeVars[v]; ok {
				return x
			}
		}
		x := fr.freshVal(v.Type(), fr.prefix+"free_"+v.Name())
		fr.vals[v] = x
		return x
	case *ssa.Builtin:
		return &Val{T: v.Type(), S: "0"}
	}
	// value used before definition can happen for values defined in blocks we skipped
	x := fr.freshVal(v.Type(), fr.prefix+"undef_"+v.Name())
	fr.vals[v] = x
	return x
}

func (fr *Frame) constVal(c *ssa.Const) *Val {
	u := fr.u
	t := c.Type()
	if c.Value == nil {
		if _, ok := t.(*types.Tuple); ok {
			return &Val{T: t}
		}
		return &Val{T: t, S: u.S.zeroOf(t)}
	}
	so := u.S.sortOf(t)
	switch c.Value.Kind() {
	case constant.Bool:
		if constant.BoolVal(c.Value) {
			return &Val{T: t, S: "true"}
		}
		return &Val{T: t, S: "false"}
	case constant.Int:
		if so == "Float" {
			return &Val{T: t, S: u.S.fltLit(c.Value.ExactString())}
		}
		bi, _ := new(big.Int).SetString(c.Value.ExactString(), 10)
		return &Val{T: t, S: intLit(bi)}
	case constant.Float:
		if so == "Int" {
			// exact integer constant in float syntax
			if i := constant.ToInt(c.Value); i.Kind() == constant.Int {
				bi, _ := new(big.Int).SetString(i.ExactString(), 10)
				return &Val{T: t, S: intLit(bi)}
			}
		}
		return &Val{T: t, S: u.S.fltLit(c.Value.ExactString())}
	case constant.String:
		s := constant.StringVal(c.Value)
		n := u.S.strLit(s)
		if !fr.dry {
			u.assertOnce(fmt.Sprintf("(= (strlen %s) %d)", n, len(s)))
		}
		return &Val{T: t, S: n}
	}
	return &Val{T: t, S: u.S.zeroOf(t)}
}

// boxed is the MakeInterface encoding of a concrete value: mi_T(x), with the facts that make boxing injective and
// type-tagged asserted for this very term (ground instances keep the solvers' quantifier engines out of it).
func (u *Unit) boxed(t types.Type, x string, assertFacts bool) string {
	tn := mangle(shortTypeName(t))
	fn := u.S.boxFun(tn, u.S.sortOf(t))
	term := app(fn, x)
	if assertFacts && !strings.Contains(x, "q!") {
		u.assertOnce(fmt.Sprintf("(and (= (mi_inv_%s %s) %s) (= (itype %s) %d) (> %s 0))", tn, term, x, term, u.S.boxTag[fn], term))
	}
	return term
}

func (u *Unit) assertOnce(f string) {
	if !u.assumed["A:"+f] {
		u.assumed["A:"+f] = true
		u.assert(f)
	}
}

// ---- heap access ----

func (u *Unit) fieldComp(structT types.Type, f int) (name, sort string) {
	so := u.S.sortOf(structT)
	si := u.S.structs[so]
	if si == nil {
		return "F_" + so + "_x", "(Array Int Int)"
	}
	return fmt.Sprintf("F_%s_%d", so, f), "(Array Int " + si.Fields[f].Sort + ")"
}

// Components are named by Go type (type-based alias analysis: cells of different Go types never alias).
func (u *Unit) ptrComp(t types.Type) (name, sort string) {
	so := u.S.sortOf(t)
	return "P_" + u.S.typeName(t), "(Array Int " + so + ")"
}

func (u *Unit) elemComp(t types.Type) (name, sort string) {
	so := u.S.sortOf(t)
	return "E_" + u.S.typeName(t), "(Array Int (Array Int " + so + "))"
}

func isStructVal(t types.Type) bool {
	t = types.Unalias(t)
	if _, ok := sortOverrides[typeKey(t)]; ok {
		return false
	}
	_, ok := t.Underlying().(*types.Struct)
	return ok
}

// placeOf turns a pointer value into a place.
func (fr *Frame) placeOf(v *Val) *Place {
	if v.Place != nil {
		return v.Place
	}
	pt, ok := types.Unalias(v.T).Underlying().(*types.Pointer)
	if !ok {
		return &Place{Base: v.S, BaseT: v.T}
	}
	return &Place{Base: v.S, BaseT: pt.Elem()}
}

// projection of a nested path out of a struct term
func (u *Unit) project(term string, t types.Type, path []int) string {
	for _, f := range path {
		so := u.S.sortOf(t)
		term = app(u.S.selName(so, f), term)
		t = t.Underlying().(*types.Struct).Field(f).Type()
	}
	return term
}

// updated struct term with nested path replaced by v
func (u *Unit) updateNested(term string, t types.Type, path []int, v string) string {
	if len(path) == 0 {
		return v
	}
	so := u.S.sortOf(t)
	si := u.S.structs[so]
	var args []string
	for i, f := range si.Fields {
		sub := app(u.S.selName(so, i), term)
		if i == path[0] {
			sub = u.updateNested(sub, f.T, path[1:], v)
		}
		args = append(args, sub)
	}
	return app("mk_"+so, args...)
}

func (fr *Frame) load(st *State, pl *Place) *Val {
	u := fr.u
	t := pl.typ()
	if pl.Elem {
		cn, cs := u.elemComp(pl.BaseT)
		base := sel(sel(u.comp(st, cn, cs), pl.Base), pl.Idx)
		return &Val{T: t, S: u.project(base, pl.BaseT, pl.Path)}
	}
	if isStructVal(pl.BaseT) {
		if len(pl.Path) == 0 {
			so := u.S.sortOf(pl.BaseT)
			si := u.S.structs[so]
			var args []string
			for i := range si.Fields {
				cn, cs := u.fieldComp(pl.BaseT, i)
				args = append(args, sel(u.comp(st, cn, cs), pl.Base))
			}
			return &Val{T: t, S: app("mk_"+so, args...)}
		}
		cn, cs := u.fieldComp(pl.BaseT, pl.Path[0])
		ft := pl.BaseT.Underlying().(*types.Struct).Field(pl.Path[0]).Type()
		return &Val{T: t, S: u.project(sel(u.comp(st, cn, cs), pl.Base), ft, pl.Path[1:])}
	}
	cn, cs := u.ptrComp(pl.BaseT)
	return &Val{T: t, S: sel(u.comp(st, cn, cs), pl.Base)}
}

func (fr *Frame) wrote(comp string) {
	if fr.dry && fr.written != nil && fr.curBlock != nil {
		m := fr.written[fr.curBlock.Index]
		if m == nil {
			m = map[string]bool{}
			fr.written[fr.curBlock.Index] = m
		}
		m[comp] = true
	}
	if fr.parent != nil {
		fr.parent.wrote(comp)
	}
}

var nameHeapOver = func() int {
	n := 5000
	if v := os.Getenv("VERIF_NAMEHEAP"); v != "" {
		fmt.Sscanf(v, "%d", &n)
	}
	return n
}()

func (fr *Frame) setComp(st *State, name, sort, term string) {
	fr.u.compInit(name, sort)
	if len(term) > nameHeapOver {
		// name large heap terms: an update mentions the previous heap twice, so chains of updates double in size
		n := fr.u.S.fresh("H_"+name, sort)
		if !fr.dry {
			fr.u.assert(eq(n, term))
		}
		term = n
	}
	st.comps[name] = term
	fr.wrote(name)
}

func (fr *Frame) store(st *State, pl *Place, v string) {
	u := fr.u
	if pl.Elem {
		cn, cs := u.elemComp(pl.BaseT)
		cur := u.comp(st, cn, cs)
		inner := sel(cur, pl.Base)
		nv := v
		if len(pl.Path) > 0 {
			nv = u.updateNested(sel(inner, pl.Idx), pl.BaseT, pl.Path, v)
		}
		fr.setComp(st, cn, cs, sto(cur, pl.Base, sto(inner, pl.Idx, nv)))
		return
	}
	if isStructVal(pl.BaseT) {
		so := u.S.sortOf(pl.BaseT)
		si := u.S.structs[so]
		if len(pl.Path) == 0 {
			for i := range si.Fields {
				cn, cs := u.fieldComp(pl.BaseT, i)
				fr.setComp(st, cn, cs, sto(u.comp(st, cn, cs), pl.Base, app(u.S.selName(so, i), v)))
			}
			return
		}
		cn, cs := u.fieldComp(pl.BaseT, pl.Path[0])
		cur := u.comp(st, cn, cs)
		nv := v
		if len(pl.Path) > 1 {
			nv = u.updateNested(sel(cur, pl.Base), si.Fields[pl.Path[0]].T, pl.Path[1:], v)
		}
		fr.setComp(st, cn, cs, sto(cur, pl.Base, nv))
		return
	}
	cn, cs := u.ptrComp(pl.BaseT)
	fr.setComp(st, cn, cs, sto(u.comp(st, cn, cs), pl.Base, v))
}

// alloc returns a fresh reference, distinct from everything allocated before.
func (fr *Frame) alloc(st *State) string {
	u := fr.u
	wm := u.comp(st, "WM", "Int")
	r := u.S.fresh(fr.prefix+"ref", "Int")
	if !fr.dry {
		u.assert(eq(r, wm))
		u.assertOnce("(> WM@0 0)")
	}
	fr.setComp(st, "WM", "Int", "(+ "+r+" 1)")
	return r
}

// ---- maps ----

func (u *Unit) mapComps(mt *types.Map) (hn, hs, vn, vs string) {
	ks := u.S.sortOf(mt.Key())
	es := u.S.sortOf(mt.Elem())
	tn := u.S.typeName(mt.Key()) + "_" + u.S.typeName(mt.Elem())
	hn = "MH_" + tn
	hs = "(Array Int (Array " + ks + " Bool))"
	vn = "MV_" + tn
	vs = "(Array Int (Array " + ks + " " + es + "))"
	return
}

func (u *Unit) mapHas(st *State, mt *types.Map, m, k string) string {
	hn, hs, _, _ := u.mapComps(mt)
	return and(not(eq(m, "0")), sel(sel(u.comp(st, hn, hs), m), k))
}

func (u *Unit) mapVal(st *State, mt *types.Map, m, k string) string {
	_, _, vn, vs := u.mapComps(mt)
	return sel(sel(u.comp(st, vn, vs), m), k)
}

func (u *Unit) mapLen(st *State, m string) string {
	return sel(u.comp(st, "ML", "(Array Int Int)"), m)
}

// ---- block execution ----

func (fr *Frame) execBlock(b *ssa.BasicBlock, st *State) {
	reach := fr.reach[b.Index]
	for idx, ins := range b.Instrs {
		if _, ok := ins.(*ssa.Phi); ok {
			continue
		}
		if len(fr.pendingAfter) > 0 {
			switch ins.(type) {
			case *ssa.Extract, *ssa.DebugRef:
			default:
				// ghost definitions attached to the preceding call, once its results have been named
				for _, c := range fr.pendingAfter {
					fr.afterCall(b, idx, c, st, reach)
				}
				fr.pendingAfter = nil
			}
		}
		fr.execInstr(b, idx, ins, st, reach)
	}
	fr.pendingAfter = nil
}

func (fr *Frame) panicObl(b *ssa.BasicBlock, idx int, kind string, safe string, reach string, ins ssa.Instruction) {
	u := fr.u
	if fr.dry {
		return
	}
	check := true
	if (kind == "nil" || kind == "nilmap" || kind == "typeassert") && (fr.fcTop() == nil || !fr.fcTop().CheckNil) {
		check = false
	}
	if fr.fcTop() != nil && fr.fcTop().MayPanic && kind == "explicit" {
		check = false
	}
	if fc := fr.fcTop(); fc != nil && fc.MayPanicBounds != "" && fr.parent == nil && (kind == "index" || kind == "slice" || kind == "makeslice") {
		check = false
		u.note("index and slice bounds inside " + shortKey(u.Name) + " are assumed, not proved (" + fc.MayPanicBounds + ")")
	}
	if check {
		name := fmt.Sprintf("%s#panic:%s:%s", u.Name, kind, fr.instrID(b, idx))
		pos := u.P.Fset.Position(ins.Pos())
		o := u.oblige(name, "panic", fmt.Sprintf("no %s panic at %s:%d (%s)", kind, shortFile(pos.Filename), pos.Line, strings.TrimSpace(ins.String())), implies(reach, safe), nil)
		_ = o
	} else if kind == "nil" || kind == "nilmap" || kind == "typeassert" {
		u.note("nil dereferences are assumed not to happen (memory safety of pointer arguments is a precondition)")
	}
	u.assert(implies(reach, safe))
}

func shortFile(f string) string {
	f = strings.TrimPrefix(f, repoDir()+"/")
	return f
}

func (fr *Frame) fcTop() *FuncContract {
	f := fr
	for f.parent != nil {
		f = f.parent
	}
	return f.fc
}

// instrID is stable under edits elsewhere in the function: kind of instruction plus its ordinal among
// instructions of the same kind.
func (fr *Frame) instrID(b *ssa.BasicBlock, idx int) string {
	ins := b.Instrs[idx]
	kind := fmt.Sprintf("%T", ins)
	kind = strings.TrimPrefix(kind, "*ssa.")
	n := 0
	for _, bb := range fr.fn.Blocks {
		for i, x := range bb.Instrs {
			if fmt.Sprintf("%T", x) == "*ssa."+kind {
				n++
			}
			if bb == b && i == idx {
				if fr.prefix != "" {
					return fmt.Sprintf("%s%s%d", fr.prefix, kind, n)
				}
				return fmt.Sprintf("%s%d", kind, n)
			}
		}
	}
	return fmt.Sprintf("%s?", kind)
}

func (fr *Frame) define(v ssa.Value, term string) *Val {
	if fr.dry {
		x := &Val{T: v.Type(), S: term}
		fr.vals[v] = x
		return x
	}
	res := fr.declVal(v)
	fr.u.assert(eq(res.S, term))
	return res
}

func (fr *Frame) execInstr(b *ssa.BasicBlock, idx int, ins ssa.Instruction, st *State, reach string) {
	u := fr.u
	switch ins := ins.(type) {
	case *ssa.DebugRef:
	case *ssa.Alloc:
		r := fr.alloc(st)
		elem := ins.Type().Underlying().(*types.Pointer).Elem()
		if at, ok := elem.Underlying().(*types.Array); ok {
			// arrays behind pointers live in the element heap
			cn, cs := u.elemComp(at.Elem())
			inner := "(Array Int " + u.S.sortOf(at.Elem()) + ")"
			fr.setComp(st, cn, cs, sto(u.comp(st, cn, cs), r, u.S.zeroOfSort(inner)))
		} else {
			fr.store(st, &Place{Base: r, BaseT: elem}, u.S.zeroOf(elem))
		}
		fr.vals[ins] = &Val{T: ins.Type(), S: r}
	case *ssa.FieldAddr:
		x := fr.val(ins.X)
		pl := fr.placeOf(x)
		fr.panicObl(b, idx, "nil", not(eq(pl.Base, "0")), reach, ins)
		npl := pl.extend(ins.Field)
		if npl.RootSSA == nil {
			npl.RootSSA = ins.X
		}
		fr.vals[ins] = &Val{T: ins.Type(), Place: npl}
	case *ssa.Field:
		x := fr.val(ins.X)
		so := u.S.sortOf(ins.X.Type())
		if _, ov := sortOverrides[typeKey(types.Unalias(ins.X.Type()))]; ov {
			// abstracted value type (big.Int): its embedded pointer stands for the value itself
			fr.vals[ins] = &Val{T: ins.Type(), S: x.S}
			break
		}
		fr.define(ins, app(u.S.selName(so, ins.Field), x.S))
	case *ssa.IndexAddr:
		x := fr.val(ins.X)
		i := fr.val(ins.Index)
		switch xt := types.Unalias(ins.X.Type()).Underlying().(type) {
		case *types.Slice:
			fr.panicObl(b, idx, "index", fmt.Sprintf("(and (<= 0 %s) (< %s (sl_len %s)))", i.S, i.S, x.S), reach, ins)
			fr.vals[ins] = &Val{T: ins.Type(), Place: &Place{Base: app("sl_arr", x.S), BaseT: xt.Elem(), Elem: true, Idx: "(+ (sl_off " + x.S + ") " + i.S + ")", RootSSA: ins.X}}
		case *types.Pointer:
			at := xt.Elem().Underlying().(*types.Array)
			fr.panicObl(b, idx, "index", fmt.Sprintf("(and (<= 0 %s) (< %s %d))", i.S, i.S, at.Len()), reach, ins)
			base := fr.termOf(x)
			fr.vals[ins] = &Val{T: ins.Type(), Place: &Place{Base: base, BaseT: at.Elem(), Elem: true, Idx: i.S, RootSSA: ins.X}}
		default:
			fr.unsupported(ins, "index address of unsupported type")
			fr.vals[ins] = fr.freshVal(ins.Type(), fr.prefix+ins.Name())
		}
	case *ssa.Index:
		// index of array value or string
		fr.unsupported(ins, "index of array/string value")
		fr.vals[ins] = fr.freshVal(ins.Type(), fr.prefix+ins.Name())
	case *ssa.UnOp:
		fr.unop(b, idx, ins, st, reach)
	case *ssa.BinOp:
		fr.binop(b, idx, ins, reach)
	case *ssa.Store:
		a := fr.val(ins.Addr)
		v := fr.val(ins.Val)
		pl := fr.placeOf(a)
		if a.Place == nil {
			fr.panicObl(b, idx, "nil", not(eq(a.S, "0")), reach, ins)
		}
		fr.store(st, pl, fr.termOf(v))
	case *ssa.Extract:
		t := fr.val(ins.Tuple)
		if t.Tuple == nil || ins.Index >= len(t.Tuple) {
			fr.vals[ins] = fr.freshVal(ins.Type(), fr.prefix+ins.Name())
		} else {
			fr.vals[ins] = t.Tuple[ins.Index]
		}
	case *ssa.Lookup:
		fr.lookup(b, idx, ins, st, reach)
	case *ssa.MapUpdate:
		m := fr.val(ins.Map)
		k := fr.val(ins.Key)
		v := fr.val(ins.Value)
		mt := types.Unalias(ins.Map.Type()).Underlying().(*types.Map)
		fr.panicObl(b, idx, "nilmap", not(eq(m.S, "0")), reach, ins)
		fr.mapStore(st, mt, m.S, k.S, fr.termOf(v))
	case *ssa.MakeMap:
		r := fr.alloc(st)
		mt := types.Unalias(ins.Type()).Underlying().(*types.Map)
		hn, hs, _, _ := u.mapComps(mt)
		ks := u.S.sortOf(mt.Key())
		fr.setComp(st, hn, hs, sto(u.comp(st, hn, hs), r, "((as const (Array "+ks+" Bool)) false)"))
		fr.setComp(st, "ML", "(Array Int Int)", sto(u.comp(st, "ML", "(Array Int Int)"), r, "0"))
		fr.vals[ins] = &Val{T: ins.Type(), S: r}
	case *ssa.MakeSlice:
		l := fr.val(ins.Len)
		c := fr.val(ins.Cap)
		// runtime.makeslice panics for a negative length and for one beyond the address space
		fr.panicObl(b, idx, "makeslice", fmt.Sprintf("(and (<= 0 %s) (<= %s %s) (<= %s 140737488355328))", l.S, l.S, c.S, c.S), reach, ins)
		r := fr.alloc(st)
		et := types.Unalias(ins.Type()).Underlying().(*types.Slice).Elem()
		cn, cs := u.elemComp(et)
		inner := "(Array Int " + u.S.sortOf(et) + ")"
		fr.setComp(st, cn, cs, sto(u.comp(st, cn, cs), r, u.S.zeroOfSort(inner)))
		fr.define(ins, fmt.Sprintf("(mk_Slice %s 0 %s %s)", r, l.S, c.S))
	case *ssa.Slice:
		fr.sliceOp(b, idx, ins, st, reach)
	case *ssa.Phi:
	case *ssa.Call:
		fr.call(b, idx, ins, ins.Common(), ins, st, reach)
	case *ssa.Defer:
		fr.deferred = append(fr.deferred, deferredCall{ins})
		callee := ins.Call.StaticCallee()
		if callee == nil || !isNoopCallee(callee) {
			name := "<dynamic>"
			if callee != nil {
				name = funcKey(callee)
			}
			u.note("deferred call %s in %s is not executed by the model (assumed not to affect verified state)", name, fr.fn.Name())
		}
	case *ssa.RunDefers:
	case *ssa.Go:
		u.note("go statement in %s: goroutine body not interleaved", fr.fn.Name())
	case *ssa.MakeClosure:
		r := fr.alloc(st)
		fr.vals[ins] = &Val{T: ins.Type(), S: r}
		if fr.closures() != nil {
			fr.closures()[r] = ins
		}
	case *ssa.MakeInterface:
		x := fr.val(ins.X)
		xs := fr.termOf(x)
		term := u.boxed(ins.X.Type(), xs, !fr.dry)
		fr.define(ins, term)
	case *ssa.ChangeInterface:
		fr.vals[ins] = &Val{T: ins.Type(), S: fr.val(ins.X).S}
	case *ssa.ChangeType:
		x := fr.val(ins.X)
		if u.S.sortOf(ins.Type()) == u.S.sortOf(ins.X.Type()) {
			fr.vals[ins] = &Val{T: ins.Type(), S: x.S, Place: x.Place}
		} else {
			fr.unsupported(ins, "change of struct type")
			fr.vals[ins] = fr.freshVal(ins.Type(), fr.prefix+ins.Name())
		}
	case *ssa.Convert:
		fr.convert(ins)
	case *ssa.TypeAssert:
		x := fr.val(ins.X)
		tn := mangle(shortTypeName(ins.AssertedType))
		so := u.S.sortOf(ins.AssertedType)
		u.S.declareFun("ta_ok_"+tn, []string{"Int"}, "Bool")
		u.S.declareFun("ta_val_"+tn, []string{"Int"}, so)
		ok := app("ta_ok_"+tn, x.S)
		v := app("ta_val_"+tn, x.S)
		if ins.CommaOk {
			fr.vals[ins] = &Val{T: ins.Type(), Tuple: []*Val{{T: ins.AssertedType, S: v}, {T: types.Typ[types.Bool], S: ok}}}
		} else {
			fr.panicObl(b, idx, "typeassert", ok, reach, ins)
			fr.vals[ins] = &Val{T: ins.Type(), S: v}
		}
	case *ssa.Range:
		x := fr.val(ins.X)
		fr.vals[ins] = &Val{T: ins.Type(), S: x.S}
		if mt, ok := types.Unalias(ins.X.Type()).Underlying().(*types.Map); ok {
			// ghost set of the keys this range has produced so far: empty at the start
			vis := fr.visitedSet(ins, mt)
			so := "(Array " + u.S.sortOf(mt.Key()) + " Bool)"
			if fr.dry {
				fr.setComp(st, vis, so, "x")
			} else {
				fr.setComp(st, vis, so, "((as const "+so+") false)")
			}
		}
	case *ssa.Next:
		fr.next(ins, st, reach)
	case *ssa.Panic:
		fr.panicObl(b, idx, "explicit", "false", reach, ins)
	case *ssa.Return:
		fr.callSiteSpecs(b, idx, ins, nil, nil, st, reach)
		var rs []*Val
		for _, r := range ins.Results {
			rs = append(rs, fr.val(r))
		}
		fr.rets = append(fr.rets, retPoint{reach: reach, results: rs, st: st.clone(), block: b.Index})
	case *ssa.If:
		c := fr.val(ins.Cond)
		fr.edge[[2]int{b.Index, 0}] = and(reach, c.S)
		fr.edge[[2]int{b.Index, 1}] = and(reach, not(c.S))
	case *ssa.Jump:
		fr.edge[[2]int{b.Index, 0}] = reach
	case *ssa.Send:
		fr.callSiteSpecs(b, idx, ins, nil, nil, st, reach)
		u.note("channel send in %s not modelled", fr.fn.Name())
	case *ssa.Select:
		fr.callSiteSpecs(b, idx, ins, nil, ins, st, reach) // res(chanselect, n, 0) is the index of the case taken
		// a select only communicates over channels: no heap effect in the sequential model, results unconstrained
		u.note("select in %s: which case runs and what is received is unconstrained (channel contents are not modelled)", fr.fn.Name())
		fr.vals[ins] = fr.freshVal(ins.Type(), fr.prefix+ins.Name())
	case *ssa.MakeChan:
		r := fr.alloc(st)
		fr.vals[ins] = &Val{T: ins.Type(), S: r}
		// the capacity a channel was made with is a ghost attribute of the channel (chancap(ch) in contracts)
		u.S.declareFun("chan_cap", []string{"Int"}, "Int")
		if !fr.dry {
			u.assert(implies(reach, eq(app("chan_cap", r), fr.termOf(fr.val(ins.Size)))))
		}
	case *ssa.SliceToArrayPointer, *ssa.MultiConvert:
		fr.unsupported(ins, "conversion")
		if v, ok := ins.(ssa.Value); ok {
			fr.vals[v] = fr.freshVal(v.Type(), fr.prefix+v.Name())
		}
	default:
		fr.unsupported(ins, "instruction")
		if v, ok := ins.(ssa.Value); ok {
			fr.vals[v] = fr.freshVal(v.Type(), fr.prefix+v.Name())
		}
	}
}

func (fr *Frame) closures() map[string]*ssa.MakeClosure {
	f := fr
	for f.parent != nil {
		f = f.parent
	}
	if f.closureMap == nil {
		f.closureMap = map[string]*ssa.MakeClosure{}
	}
	return f.closureMap
}

func (fr *Frame) mapStore(st *State, mt *types.Map, m, k, v string) {
	u := fr.u
	hn, hs, vn, vs := u.mapComps(mt)
	h := u.comp(st, hn, hs)
	had := sel(sel(h, m), k)
	ml := u.comp(st, "ML", "(Array Int Int)")
	fr.setComp(st, "ML", "(Array Int Int)", sto(ml, m, ite(had, sel(ml, m), "(+ "+sel(ml, m)+" 1)")))
	fr.setComp(st, hn, hs, sto(h, m, sto(sel(h, m), k, "true")))
	vv := u.comp(st, vn, vs)
	fr.setComp(st, vn, vs, sto(vv, m, sto(sel(vv, m), k, v)))
}

func (fr *Frame) mapDelete(st *State, mt *types.Map, m, k string) {
	u := fr.u
	hn, hs, _, _ := u.mapComps(mt)
	h := u.comp(st, hn, hs)
	had := and(not(eq(m, "0")), sel(sel(h, m), k))
	ml := u.comp(st, "ML", "(Array Int Int)")
	fr.setComp(st, "ML", "(Array Int Int)", sto(ml, m, ite(had, "(- "+sel(ml, m)+" 1)", sel(ml, m))))
	fr.setComp(st, hn, hs, sto(h, m, sto(sel(h, m), k, "false")))
}

func (fr *Frame) lookup(b *ssa.BasicBlock, idx int, ins *ssa.Lookup, st *State, reach string) {
	u := fr.u
	x := fr.val(ins.X)
	k := fr.val(ins.Index)
	mt, ok := types.Unalias(ins.X.Type()).Underlying().(*types.Map)
	if !ok {
		// string index
		fr.unsupported(ins, "string index")
		fr.vals[ins] = fr.freshVal(ins.Type(), fr.prefix+ins.Name())
		return
	}
	has := u.mapHas(st, mt, x.S, k.S)
	v := ite(has, u.mapVal(st, mt, x.S, k.S), u.S.zeroOf(mt.Elem()))
	if ins.CommaOk {
		vv := fr.freshValNamed(mt.Elem(), fr.prefix+ins.Name()+"#0")
		okv := fr.freshValNamed(types.Typ[types.Bool], fr.prefix+ins.Name()+"#1")
		if !fr.dry {
			u.assert(eq(vv.S, v))
			u.assert(eq(okv.S, has))
		}
		fr.allocated(vv, st)
		fr.vals[ins] = &Val{T: ins.Type(), Tuple: []*Val{vv, okv}}
		return
	}
	fr.allocated(fr.define(ins, v), st)
}

func (fr *Frame) next(ins *ssa.Next, st *State, reach string) {
	u := fr.u
	if ins.IsString {
		fr.unsupported(ins, "range over string")
		fr.vals[ins] = fr.freshVal(ins.Type(), fr.prefix+ins.Name())
		return
	}
	rng := ins.Iter.(*ssa.Range)
	m := fr.val(rng.X)
	mt := types.Unalias(rng.X.Type()).Underlying().(*types.Map)
	tup := ins.Type().(*types.Tuple)
	okv := fr.freshValNamed(types.Typ[types.Bool], fr.prefix+ins.Name()+"#0")
	kv := fr.freshValNamed(mt.Key(), fr.prefix+ins.Name()+"#1")
	vv := fr.freshValNamed(mt.Elem(), fr.prefix+ins.Name()+"#2")
	_ = tup
	if !fr.dry {
		u.assert(implies(okv.S, and(u.mapHas(st, mt, m.S, kv.S), eq(vv.S, u.mapVal(st, mt, m.S, kv.S)))))
		// ghost visited set of this range
		vis := fr.visitedSet(rng, mt)
		if vis != "" {
			cur := u.comp(st, vis, "(Array "+u.S.sortOf(mt.Key())+" Bool)")
			u.assert(implies(okv.S, not(sel(cur, kv.S))))
			ks := u.S.sortOf(mt.Key())
			u.assert(implies(not(okv.S), fmt.Sprintf("(forall ((k!v %s)) (=> %s (select %s k!v)))", ks, u.mapHas(st, mt, m.S, "k!v"), cur)))
			st.comps[vis] = ite(okv.S, sto(cur, kv.S, "true"), cur)
		}
	} else {
		vis := fr.visitedSet(rng, mt)
		if vis != "" {
			fr.setComp(st, vis, "(Array "+u.S.sortOf(mt.Key())+" Bool)", "x")
		}
	}
	fr.vals[ins] = &Val{T: ins.Type(), Tuple: []*Val{okv, kv, vv}}
}

// visitedSet names the ghost component tracking which keys a map range has produced.
func (fr *Frame) visitedSet(rng *ssa.Range, mt *types.Map) string {
	return "VIS_" + mangle(fr.prefix+rng.Name())
}

func (fr *Frame) unop(b *ssa.BasicBlock, idx int, ins *ssa.UnOp, st *State, reach string) {
	u := fr.u
	x := fr.val(ins.X)
	switch ins.Op {
	case token.MUL: // load
		if g, ok := ins.X.(*ssa.Global); ok {
			// globals are read as constants (assumed never reassigned after package init)
			name := "gval_" + mangle(g.Pkg.Pkg.Name()+"_"+g.Name())
			so := u.S.sortOf(ins.Type())
			u.S.declare(name, so)
			u.note("package-level variables are read as constants (never reassigned after init)")
			if types.Identical(ins.Type(), types.Universe.Lookup("error").Type()) && strings.HasPrefix(g.Name(), "E") && !fr.dry {
				u.assertOnce("(> " + name + " 0)")
				u.errGlobals = appendUnique(u.errGlobals, name)
			}
			fr.vals[ins] = &Val{T: ins.Type(), S: name}
			return
		}
		pl := fr.placeOf(x)
		if x.Place == nil {
			fr.panicObl(b, idx, "nil", not(eq(x.S, "0")), reach, ins)
		}
		v := fr.load(st, pl)
		res := fr.define(ins, v.S)
		fr.assumeRange(res)
		fr.allocated(res, st)
	case token.SUB:
		r := rangeOfBasic(ins.Type())
		if r.ok {
			fr.define(ins, r.wrap1("(- "+x.S+")"))
		} else if u.S.sortOf(ins.Type()) == "Float" {
			fr.define(ins, app("f_neg", x.S))
		} else {
			fr.define(ins, "(- "+x.S+")")
		}
	case token.NOT:
		fr.define(ins, not(x.S))
	case token.XOR:
		r := rangeOfBasic(ins.Type())
		if r.ok && r.signed {
			fr.define(ins, "(- (- "+x.S+") 1)")
		} else if r.ok {
			fr.define(ins, "(- "+intLit(r.max)+" "+x.S+")")
		} else {
			fr.vals[ins] = fr.freshVal(ins.Type(), fr.prefix+ins.Name())
		}
	case token.ARROW:
		fr.unsupported(ins, "channel receive")
		fr.vals[ins] = fr.freshVal(ins.Type(), fr.prefix+ins.Name())
	default:
		fr.unsupported(ins, "unary op")
		fr.vals[ins] = fr.freshVal(ins.Type(), fr.prefix+ins.Name())
	}
}

func appendUnique(xs []string, x string) []string {
	for _, y := range xs {
		if y == x {
			return xs
		}
	}
	return append(xs, x)
}

func isPow2(v *big.Int) (int, bool) {
	if v.Sign() <= 0 {
		return 0, false
	}
	n := v.BitLen() - 1
	if new(big.Int).Lsh(big.NewInt(1), uint(n)).Cmp(v) == 0 {
		return n, true
	}
	return 0, false
}

func constInt(v ssa.Value) (*big.Int, bool) {
	c, ok := v.(*ssa.Const)
	if !ok || c.Value == nil || c.Value.Kind() != constant.Int {
		return nil, false
	}
	bi, ok := new(big.Int).SetString(c.Value.ExactString(), 10)
	return bi, ok
}

func (fr *Frame) binop(b *ssa.BasicBlock, idx int, ins *ssa.BinOp, reach string) {
	u := fr.u
	x := fr.val(ins.X)
	y := fr.val(ins.Y)
	xs, ys := fr.termOf(x), fr.termOf(y)
	so := u.S.sortOf(ins.X.Type())
	noov := fr.fcTop() != nil && fr.fcTop().NoOverflow
	arith := func(raw string, linear bool) {
		r := rangeOfBasic(ins.Type())
		if !r.ok {
			fr.define(ins, raw)
			return
		}
		if noov && !fr.dry {
			name := fmt.Sprintf("%s#overflow:%s", u.Name, fr.instrID(b, idx))
			pos := u.P.Fset.Position(ins.Pos())
			u.oblige(name, "overflow", fmt.Sprintf("no overflow in %s at %s:%d", strings.TrimSpace(ins.String()), shortFile(pos.Filename), pos.Line), implies(reach, r.inRange(raw)), nil)
			u.assert(implies(reach, r.inRange(raw)))
			// keep the wrap in the definition so that the equation stays true on unreachable paths too
		}
		if linear {
			fr.define(ins, r.wrap1(raw))
		} else {
			fr.define(ins, r.wrapMod(raw))
		}
	}
	switch ins.Op {
	case token.ADD:
		switch so {
		case "Int":
			arith("(+ "+xs+" "+ys+")", true)
		case "Float":
			fr.define(ins, app("f_add", xs, ys))
		case "Str":
			res := fr.define(ins, app("str_cat", xs, ys))
			if !fr.dry {
				u.assert(fmt.Sprintf("(= (strlen %s) (+ (strlen %s) (strlen %s)))", res.S, xs, ys))
			}
		}
	case token.SUB:
		if so == "Float" {
			fr.define(ins, app("f_sub", xs, ys))
		} else {
			arith("(- "+xs+" "+ys+")", true)
		}
	case token.MUL:
		if so == "Float" {
			fr.define(ins, app("f_mul", xs, ys))
		} else {
			arith("(* "+xs+" "+ys+")", false)
		}
	case token.QUO:
		if so == "Float" {
			fr.define(ins, app("f_div", xs, ys))
			return
		}
		fr.panicObl(b, idx, "div", not(eq(ys, "0")), reach, ins)
		r := rangeOfBasic(ins.Type())
		raw := smtTruncDiv(xs, ys)
		if r.ok && r.signed {
			// MinInt / -1 wraps
			fr.define(ins, r.wrap1(raw))
		} else {
			fr.define(ins, raw)
		}
	case token.REM:
		fr.panicObl(b, idx, "div", not(eq(ys, "0")), reach, ins)
		fr.define(ins, smtTruncRem(xs, ys))
	case token.SHL, token.SHR, token.AND, token.OR, token.XOR, token.AND_NOT:
		r := rangeOfBasic(ins.Type())
		if c, ok := constInt(ins.Y); ok && r.ok {
			switch ins.Op {
			case token.SHL:
				if c.IsInt64() && c.Int64() < 256 {
					m := new(big.Int).Lsh(big.NewInt(1), uint(c.Int64()))
					fr.define(ins, r.wrapMod("(* "+xs+" "+m.String()+")"))
					return
				}
			case token.SHR:
				if c.IsInt64() && c.Int64() < 256 {
					m := new(big.Int).Lsh(big.NewInt(1), uint(c.Int64()))
					fr.define(ins, "(div "+xs+" "+m.String()+")")
					return
				}
			case token.AND:
				if n, ok := isPow2(new(big.Int).Add(c, big.NewInt(1))); ok && !r.signed {
					_ = n
					fr.define(ins, "(mod "+xs+" "+new(big.Int).Add(c, big.NewInt(1)).String()+")")
					return
				}
			}
		}
		fn := "bit_" + strings.ToLower(ins.Op.String())
		fn = map[token.Token]string{token.SHL: "bit_shl", token.SHR: "bit_shr", token.AND: "bit_and", token.OR: "bit_or", token.XOR: "bit_xor", token.AND_NOT: "bit_andnot"}[ins.Op]
		u.S.declareFun(fn, []string{"Int", "Int"}, "Int")
		u.note("bit operation %s is uninterpreted", ins.Op)
		res := fr.define(ins, app(fn, xs, ys))
		fr.assumeRange(res)
	case token.EQL, token.NEQ:
		var e string
		if so == "Float" {
			u.S.declareFun("f_eq", []string{"Float", "Float"}, "Bool")
			e = app("f_eq", xs, ys)
		} else {
			e = eq(xs, ys)
		}
		if ins.Op == token.NEQ {
			e = not(e)
		}
		fr.define(ins, e)
	case token.LSS, token.LEQ, token.GTR, token.GEQ:
		op := map[token.Token]string{token.LSS: "<", token.LEQ: "<=", token.GTR: ">", token.GEQ: ">="}[ins.Op]
		switch so {
		case "Int":
			fr.define(ins, "("+op+" "+xs+" "+ys+")")
		case "Float":
			switch ins.Op {
			case token.LSS:
				fr.define(ins, app("f_lt", xs, ys))
			case token.LEQ:
				fr.define(ins, app("f_le", xs, ys))
			case token.GTR:
				fr.define(ins, app("f_lt", ys, xs))
			case token.GEQ:
				fr.define(ins, app("f_le", ys, xs))
			}
		case "Str":
			switch ins.Op {
			case token.LSS:
				fr.define(ins, app("str_lt", xs, ys))
			case token.GTR:
				fr.define(ins, app("str_lt", ys, xs))
			case token.LEQ:
				fr.define(ins, not(app("str_lt", ys, xs)))
			case token.GEQ:
				fr.define(ins, not(app("str_lt", xs, ys)))
			}
		default:
			fr.vals[ins] = fr.freshVal(ins.Type(), fr.prefix+ins.Name())
		}
	default:
		fr.unsupported(ins, "binary op")
		fr.vals[ins] = fr.freshVal(ins.Type(), fr.prefix+ins.Name())
	}
}

func (fr *Frame) convert(ins *ssa.Convert) {
	u := fr.u
	x := fr.val(ins.X)
	from := u.S.sortOf(ins.X.Type())
	to := u.S.sortOf(ins.Type())
	switch {
	case from == "Int" && to == "Int":
		r := rangeOfBasic(ins.Type())
		rf := rangeOfBasic(ins.X.Type())
		if r.ok && rf.ok && rf.min.Cmp(r.min) >= 0 && rf.max.Cmp(r.max) <= 0 {
			fr.define(ins, x.S)
		} else if r.ok {
			fr.define(ins, r.wrapMod(x.S))
		} else {
			fr.define(ins, x.S)
		}
	case from == "Int" && to == "Float":
		fr.define(ins, app("i2f", x.S))
	case from == "Float" && to == "Int":
		res := fr.define(ins, app("f2i", x.S))
		fr.assumeRange(res)
	case from == to:
		fr.define(ins, x.S)
	default:
		// string <-> []byte etc: fresh value of equal length
		res := fr.freshVal(ins.Type(), fr.prefix+ins.Name())
		if !fr.dry {
			switch {
			case from == "Slice" && to == "Str":
				u.assert(fmt.Sprintf("(= (strlen %s) (sl_len %s))", res.S, x.S))
			case from == "Str" && to == "Slice":
				u.assert(fmt.Sprintf("(= (sl_len %s) (strlen %s))", res.S, x.S))
			}
		}
		fr.vals[ins] = res
	}
}

func (fr *Frame) sliceOp(b *ssa.BasicBlock, idx int, ins *ssa.Slice, st *State, reach string) {
	u := fr.u
	x := fr.val(ins.X)
	lo, hi := "0", ""
	if ins.Low != nil {
		lo = fr.val(ins.Low).S
	}
	switch xt := types.Unalias(ins.X.Type()).Underlying().(type) {
	case *types.Slice:
		if ins.High != nil {
			hi = fr.val(ins.High).S
		} else {
			hi = app("sl_len", x.S)
		}
		capT := app("sl_cap", x.S)
		mx := capT
		if ins.Max != nil {
			mx = fr.val(ins.Max).S
		}
		fr.panicObl(b, idx, "slice", fmt.Sprintf("(and (<= 0 %s) (<= %s %s) (<= %s %s) (<= %s %s))", lo, lo, hi, hi, mx, mx, capT), reach, ins)
		fr.define(ins, fmt.Sprintf("(mk_Slice (sl_arr %s) (+ (sl_off %s) %s) (- %s %s) (- %s %s))", x.S, x.S, lo, hi, lo, mx, lo))
	case *types.Pointer:
		at := xt.Elem().Underlying().(*types.Array)
		n := fmt.Sprint(at.Len())
		if ins.High != nil {
			hi = fr.val(ins.High).S
		} else {
			hi = n
		}
		fr.panicObl(b, idx, "slice", fmt.Sprintf("(and (<= 0 %s) (<= %s %s) (<= %s %s))", lo, lo, hi, hi, n), reach, ins)
		fr.define(ins, fmt.Sprintf("(mk_Slice %s %s (- %s %s) (- %s %s))", fr.termOf(x), lo, hi, lo, n, lo))
	default:
		// string slicing
		_ = u
		fr.unsupported(ins, "string slice")
		fr.vals[ins] = fr.freshVal(ins.Type(), fr.prefix+ins.Name())
	}
}

// havocAll forgets every heap component.
func (fr *Frame) havocAll(st *State, why string) {
	u := fr.u
	wm := u.comp(st, "WM", "Int")
	for name := range st.comps {
		delete(st.comps, name)
	}
	st.epoch = u.newEpoch()
	// watermark only grows
	if !fr.dry {
		n := u.S.fresh("WM@havoc", "Int")
		u.assert("(>= " + n + " " + wm + ")")
		fr.setComp(st, "WM", "Int", n)
	}
	fr.wrote("*")
}
