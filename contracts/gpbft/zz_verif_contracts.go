//go:build verif

// Contracts for package gpbft, read by /verif/govc. This file contains only comments and is
// excluded from every normal build by the "verif" tag.

package gpbft

//@ pred strong(part mathint, whole mathint) = 3*part >= 2*whole

//@ func divCeil
//@   property C08
//@   requires b > 0 && a >= 0
//@   ensures result*b >= a && (result-1)*b < a
//@   nooverflow
//@   pure

//@ func IsStrongQuorum
//@   property C08
//@   requires 0 <= whole && whole <= 4611686018427387903
//@   ensures result == strong(part, whole)
//@   nooverflow
//@   pure

//@ func hasWeakQuorum
//@   property C08
//@   requires 0 <= whole
//@   ensures result ==> 3*part > whole
//@   ensures 3*part > whole + 2 ==> result
//@   nooverflow
//@   pure
