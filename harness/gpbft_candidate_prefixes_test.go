package gpbft

import (
	"fmt"
	"testing"
)

// Replay harness for addCandidatePrefixes: after the call every prefix of the chain with at least two tipsets must be a
// candidate (the base is one from the start).
func TestVerifReplay(t *testing.T) {
	ts := make([]*TipSet, 4)
	for i := range ts {
		ts[i] = &TipSet{Epoch: int64(i), Key: []byte{byte(i + 1)}, PowerTable: MakeCid([]byte("pt"))}
	}
	c := &ECChain{TipSets: ts}
	i := &instance{candidates: map[ECChainKey]struct{}{c.BaseChain().Key(): {}}}
	i.addCandidatePrefixes(c)
	missing := 0
	for l := 1; l < c.Len(); l++ {
		ok := i.isCandidate(c.Prefix(l))
		fmt.Printf("prefix with %d tipsets is a candidate: %v\n", l+1, ok)
		if !ok {
			missing++
		}
	}
	if missing > 0 {
		fmt.Println("REPLAY-CONFIRMED")
	}
}
