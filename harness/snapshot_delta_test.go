package certstore

import (
	"bytes"
	"context"
	"fmt"
	"testing"

	"github.com/filecoin-project/go-f3/certs"
	"github.com/filecoin-project/go-f3/gpbft"
	"github.com/filecoin-project/go-state-types/big"
	"github.com/ipfs/go-datastore"
	ds_sync "github.com/ipfs/go-datastore/sync"
)

// Replay harness for the snapshot importer: certificate 0 commits to the unchanged table but its delta adds power
// that certificate 1 removes again. Each delta must reproduce the table its certificate commits to.
func TestVerifReplay(t *testing.T) {
	ctx := context.Background()
	pt, ptCid := testPowerTable(10)
	supp := gpbft.SupplementalData{PowerTable: ptCid}
	c0 := makeCert(0, supp)
	c1 := makeCert(1, supp)
	c0.PowerTableDelta = certs.PowerTableDiff{{ParticipantID: pt[0].ID, PowerDelta: big.NewInt(5)}}
	c1.PowerTableDelta = certs.PowerTableDiff{{ParticipantID: pt[0].ID, PowerDelta: big.NewInt(-5)}}
	var snap bytes.Buffer
	hdr := SnapshotHeader{1, 0, 1, pt}
	if _, err := hdr.WriteTo(&snap); err != nil {
		t.Fatal(err)
	}
	for _, c := range []*certs.FinalityCertificate{c0, c1} {
		if _, err := writeSnapshotCborEncodedBlock(&snap, c); err != nil {
			t.Fatal(err)
		}
	}
	target := ds_sync.MutexWrap(datastore.NewMapDatastore())
	err := ImportSnapshotToDatastore(ctx, bytes.NewReader(snap.Bytes()), target, nil)
	fmt.Printf("import error: %v\n", err)
	if err != nil {
		fmt.Println("REPLAY-NOT-REPRODUCED")
		return
	}
	cs, err := OpenStore(ctx, target)
	if err != nil {
		t.Fatal(err)
	}
	t1, err := cs.GetPowerTable(ctx, 1)
	if err != nil {
		t.Fatal(err)
	}
	got, _ := certs.MakePowerTableCID(t1)
	if got != ptCid {
		fmt.Println("REPLAY-CONFIRMED the snapshot was imported although the delta of certificate 0 does not reproduce the table it commits to; the imported store returns a different table for instance 1")
	} else {
		fmt.Println("REPLAY-CONFIRMED the snapshot with a non-reproducing delta was imported without error")
	}
}
