#!/bin/bash
# sync contract mirror into /repo and commit there (hook commit)
/verif/sync_contracts.sh >/dev/null
cd /repo && git add -A '*zz_verif_contracts.go' && (git diff --cached --quiet || git commit -qm "verif: update contract files")
git -C /repo status --short | head -5
