package sim

import (
	"context"
	"fmt"
	"testing"

	"github.com/filecoin-project/go-bitfield"
	"github.com/filecoin-project/go-f3/gpbft"
	"github.com/filecoin-project/go-f3/sim/signing"
)

// Replay harness for sim.(*ECInstance).validateDecision: a DECIDE justification signed by ONE of four
// equal-power participants (25% < 2/3) with a valid aggregate of that single signature must be rejected.
func TestVerifReplay(t *testing.T) {
	backend := signing.NewFakeBackend()
	pt := gpbft.NewPowerTable()
	var keys []gpbft.PubKey
	for i := 0; i < 4; i++ {
		pk, _ := backend.GenerateKey()
		keys = append(keys, pk)
		if err := pt.Add(gpbft.PowerEntry{ID: gpbft.ActorID(i + 1), Power: gpbft.NewStoragePower(10), PubKey: pk}); err != nil {
			t.Fatal(err)
		}
	}
	ec := &simEC{networkName: "replay", verifier: backend}
	base := &gpbft.ECChain{TipSets: []*gpbft.TipSet{{Epoch: 0, Key: []byte("base"), PowerTable: gpbft.MakeCid([]byte("pt"))}}}
	inst := ec.BeginInstance(base, pt)
	value := base.Extend([]byte("decided"))
	vote := gpbft.Payload{Instance: inst.Instance, Round: 0, Phase: gpbft.DECIDE_PHASE, Value: value}
	payload := backend.MarshalPayloadForSigning("replay", &vote)
	// signer: table index 0 only
	signerKey := pt.Entries[0].PubKey
	sig, err := backend.Sign(context.Background(), signerKey, payload)
	if err != nil {
		t.Fatal(err)
	}
	agg, err := backend.Aggregate(pt.Entries.PublicKeys())
	if err != nil {
		t.Fatal(err)
	}
	aggSig, err := agg.Aggregate([]int{0}, [][]byte{sig})
	if err != nil {
		t.Fatal(err)
	}
	decision := &gpbft.Justification{Vote: vote, Signers: bitfield.NewFromSet([]uint64{0}), Signature: aggSig}
	verr := inst.validateDecision(decision)
	fmt.Printf("scaled power of signers: %d of %d; validateDecision error: %v\n", pt.ScaledPower[0], pt.ScaledTotal, verr)
	confirmed := false
	if verr == nil {
		confirmed = true
		fmt.Println("REPLAY-CONFIRMED the simulator oracle accepted a decision backed by 25% of the power")
	}
	// second scenario: a signer index >= 2^63 must be reported as an error, not crash the oracle
	func() {
		defer func() {
			if r := recover(); r != nil {
				confirmed = true
				fmt.Printf("REPLAY-CONFIRMED validateDecision panicked on signer index 2^63: %v\n", r)
			}
		}()
		huge := &gpbft.Justification{Vote: vote, Signers: bitfield.NewFromSet([]uint64{1 << 63}), Signature: aggSig}
		fmt.Printf("validateDecision with signer 2^63: %v\n", inst.validateDecision(huge))
	}()
	if !confirmed {
		fmt.Println("REPLAY-NOT-REPRODUCED")
	}
}
