package gpbft

import (
	"fmt"
	"testing"
)

// Bounded stand-in (C14, chain keys): for every chain length 1..ChainMaxLen the key computed directly, in batch for all
// prefixes, and read from the cached prefix objects agree, on the real functions. Labelled bounded; never counted as proved.
func TestVerifBounded(t *testing.T) {
	cases := 0
	var tipsets []*TipSet
	ptCid := MakeCid([]byte("pt"))
	for i := 0; i < ChainMaxLen; i++ {
		ts := &TipSet{Epoch: int64(100 + 2*i), Key: []byte(fmt.Sprintf("tipset-key-%04d", i)), PowerTable: ptCid}
		ts.Commitments[0] = byte(i)
		tipsets = append(tipsets, ts)
	}
	for n := 1; n <= ChainMaxLen; n++ {
		chain := &ECChain{TipSets: append([]*TipSet{}, tipsets[:n]...)}
		if err := chain.Validate(); err != nil {
			t.Fatalf("BOUNDED-FAIL test chain of length %d is not valid: %v", n, err)
		}
		keys := (&ECChain{TipSets: chain.TipSets}).KeysForPrefixes()
		prefixes := (&ECChain{TipSets: chain.TipSets}).AllPrefixes()
		if len(keys) != n || len(prefixes) != n {
			t.Fatalf("BOUNDED-FAIL length %d: %d keys, %d prefixes", n, len(keys), len(prefixes))
		}
		for i := 0; i < n; i++ {
			direct := (&ECChain{TipSets: chain.TipSets[:i+1]}).Key()
			if keys[i] != direct {
				t.Fatalf("BOUNDED-FAIL length %d: batch key %d differs from the direct key of the prefix", n, i)
			}
			if prefixes[i].Key() != direct {
				t.Fatalf("BOUNDED-FAIL length %d: cached key of prefix object %d differs from the direct key", n, i)
			}
			if chain.Prefix(i).Key() != direct {
				t.Fatalf("BOUNDED-FAIL length %d: key of Prefix(%d) differs from the direct key", n, i)
			}
			cases++
		}
		if chain.Key() != keys[n-1] {
			t.Fatalf("BOUNDED-FAIL length %d: the chain's own key differs from the last batch key", n)
		}
	}
	fmt.Printf("BOUNDED-CASES %d\n", cases)
}
