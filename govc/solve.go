package main

import (
	"bytes"
	"context"
	"fmt"
	"os"
	"os/exec"
	"path/filepath"
	"strings"
	"sync"
	"time"
)

type solverSpec struct {
	name string
	args func(file string, timeoutS int, seed int) []string
}

var solvers = []solverSpec{
	{"z3-4.8.12", func(f string, t, seed int) []string {
		return []string{"z3", "-smt2", fmt.Sprintf("-T:%d", t), fmt.Sprintf("smt.random_seed=%d", seed), fmt.Sprintf("sat.random_seed=%d", seed), f}
	}},
	{"z3-5.1.0", func(f string, t, seed int) []string {
		return []string{"z3-new", "-smt2", fmt.Sprintf("-T:%d", t), fmt.Sprintf("smt.random_seed=%d", seed), fmt.Sprintf("sat.random_seed=%d", seed), f}
	}},
	{"cvc5-1.0", func(f string, t, seed int) []string {
		return []string{"cvc5", "--lang=smt2", "--produce-models", fmt.Sprintf("--tlimit=%d", t*1000), fmt.Sprintf("--seed=%d", seed), f}
	}},
}

// second-stage variants for obligations the default configurations do not decide quickly
var solvers2 = []solverSpec{
	{"z3-5.1.0", func(f string, t, seed int) []string {
		return []string{"z3-new", "-smt2", fmt.Sprintf("-T:%d", t), fmt.Sprintf("smt.random_seed=%d", seed), f}
	}},
	{"z3-5.1.0/arith.solver=2", func(f string, t, seed int) []string {
		return []string{"z3-new", "-smt2", fmt.Sprintf("-T:%d", t), "smt.arith.solver=2", fmt.Sprintf("smt.random_seed=%d", seed), f}
	}},
	{"z3-5.1.0/grobner=false", func(f string, t, seed int) []string {
		return []string{"z3-new", "-smt2", fmt.Sprintf("-T:%d", t), "smt.arith.nl.grobner=false", fmt.Sprintf("smt.random_seed=%d", seed), f}
	}},
	{"z3-5.1.0/qi.eager=100", func(f string, t, seed int) []string {
		return []string{"z3-new", "-smt2", fmt.Sprintf("-T:%d", t), "smt.qi.eager_threshold=100", fmt.Sprintf("smt.random_seed=%d", seed), f}
	}},
	{"z3-4.8.12", func(f string, t, seed int) []string {
		return []string{"z3", "-smt2", fmt.Sprintf("-T:%d", t), fmt.Sprintf("smt.random_seed=%d", seed), f}
	}},
	{"cvc5-1.0", func(f string, t, seed int) []string {
		return []string{"cvc5", "--lang=smt2", "--produce-models", fmt.Sprintf("--tlimit=%d", t*1000), fmt.Sprintf("--seed=%d", seed), f}
	}},
}

const maxVCBytes = 1 << 20

// buildQuery renders the SMT-LIB text of one obligation.
func (u *Unit) buildQuery(o *Obligation) string { return u.buildQueryOpt(o, false) }

// buildQueryOpt with dropQuant leaves out every quantified hypothesis. Fewer hypotheses: "unsat" still proves the
// obligation; "sat" is only a candidate counterexample (it may violate a dropped hypothesis).
func (u *Unit) buildQueryOpt(o *Obligation, dropQuant bool) string {
	var b bytes.Buffer
	b.WriteString("(set-option :produce-models true)\n(set-logic ALL)\n")
	for _, d := range u.S.sortDecls {
		b.WriteString(d)
		b.WriteByte('\n')
	}
	for _, d := range u.S.decls {
		if dropQuant && strings.HasPrefix(d, "(assert") && strings.Contains(d, "(forall ") {
			continue
		}
		b.WriteString(d)
		b.WriteByte('\n')
	}
	if len(u.errGlobals) > 1 {
		b.WriteString("(assert (distinct " + strings.Join(u.errGlobals, " ") + "))\n")
	}
	for _, d := range u.defs {
		hidden := false
		if u.fc != nil {
			for _, h := range u.fc.Hide {
				if h[0] == d.pred && strings.Contains(o.Name, h[1]) {
					hidden = true
				}
			}
		}
		if !hidden && !dropQuant {
			b.WriteString("(assert " + d.formula + ")\n")
		}
	}
	for _, a := range u.asserts[:o.NAsserts] {
		if dropQuant && (strings.Contains(a, "(forall ") || strings.Contains(a, "(exists ")) {
			continue
		}
		b.WriteString("(assert " + a + ")\n")
	}
	if o.ExpectSat {
		b.WriteString("(assert " + o.Goal + ")\n")
	} else {
		b.WriteString("(assert (not " + o.Goal + "))\n")
	}
	b.WriteString("(check-sat)\n")
	if len(o.Vars) > 0 {
		var ts []string
		for _, t := range sortedVals(o.Vars) {
			ts = append(ts, t)
		}
		b.WriteString("(get-value (" + strings.Join(ts, " ") + "))\n")
	}
	return b.String()
}

func sortedVals(m map[string]string) []string {
	var ks []string
	for k := range m {
		ks = append(ks, k)
	}
	sortStrings(ks)
	var vs []string
	for _, k := range ks {
		vs = append(vs, m[k])
	}
	return vs
}

func sortStrings(xs []string) {
	for i := 1; i < len(xs); i++ {
		for j := i; j > 0 && xs[j] < xs[j-1]; j-- {
			xs[j], xs[j-1] = xs[j-1], xs[j]
		}
	}
}

type solveResult struct {
	answer string // sat / unsat / unknown / timeout / error
	solver string
	out    string
	timeS  float64
}

// solveOne races the solvers on one query file.
func solveOne(query string, timeoutS int, seed int, dir string, tag string) solveResult {
	file := filepath.Join(dir, tag+".smt2")
	if err := os.WriteFile(file, []byte(query), 0o644); err != nil {
		return solveResult{answer: "error", out: err.Error()}
	}
	stage1 := 5
	if timeoutS < stage1 {
		stage1 = timeoutS
	}
	r := raceSolvers(solvers, file, stage1, seed)
	if r.answer == "sat" || r.answer == "unsat" || timeoutS <= stage1 {
		return r
	}
	r2 := raceSolvers(solvers2, file, timeoutS, seed)
	r2.timeS += r.timeS
	return r2
}

func raceSolvers(solvers []solverSpec, file string, timeoutS int, seed int) solveResult {
	ctx, cancel := context.WithTimeout(context.Background(), time.Duration(timeoutS+2)*time.Second)
	defer cancel()
	type r struct {
		solveResult
	}
	ch := make(chan solveResult, len(solvers))
	start := time.Now()
	var wg sync.WaitGroup
	for _, s := range solvers {
		wg.Add(1)
		go func(s solverSpec) {
			defer wg.Done()
			a := s.args(file, timeoutS, seed)
			cmd := exec.CommandContext(ctx, a[0], a[1:]...)
			var out bytes.Buffer
			cmd.Stdout = &out
			cmd.Stderr = &out
			_ = cmd.Run()
			text := out.String()
			// skip solver warnings: the answer is the first line that is a check-sat response
			first := ""
			for _, ln := range strings.Split(text, "\n") {
				t := strings.TrimSpace(ln)
				if t == "sat" || t == "unsat" || t == "unknown" || t == "timeout" || strings.HasPrefix(t, "(error") || strings.Contains(t, "interrupted by timeout") {
					first = t
					break
				}
			}
			if first != "" {
				if i := strings.Index(text, first); i > 0 {
					text = text[i:]
				}
			}
			ans := "unknown"
			switch {
			case first == "unsat":
				ans = "unsat"
			case first == "sat":
				ans = "sat"
			case strings.Contains(first, "timeout") || ctx.Err() != nil:
				ans = "timeout"
			case strings.HasPrefix(first, "(error") || strings.Contains(text, "(error"):
				ans = "error"
			}
			ch <- solveResult{answer: ans, solver: s.name, out: text, timeS: time.Since(start).Seconds()}
		}(s)
	}
	var best solveResult
	var all []solveResult
	for range solvers {
		res := <-ch
		all = append(all, res)
		if res.answer == "sat" || res.answer == "unsat" {
			best = res
			cancel()
			break
		}
	}
	go func() { wg.Wait() }()
	if best.answer == "" {
		// no definite answer: report the most informative
		best = all[0]
		for _, r := range all {
			if r.answer == "unknown" {
				best = r
			}
		}
		var outs []string
		for _, r := range all {
			o := r.out
			if len(o) > 400 {
				o = o[:400]
			}
			outs = append(outs, fmt.Sprintf("[%s: %s] %s", r.solver, r.answer, strings.TrimSpace(o)))
		}
		best.out = strings.Join(outs, "\n")
		best.timeS = time.Since(start).Seconds()
	}
	return best
}

// dischargeAll runs every obligation of the units with a worker pool.
func dischargeAll(units []*Unit, timeoutS int, seed int, workDir string) {
	type job struct {
		u *Unit
		o *Obligation
		n int
	}
	var jobs []job
	n := 0
	for _, u := range units {
		for _, o := range u.obls {
			jobs = append(jobs, job{u, o, n})
			n++
		}
	}
	workers := 6
	if w := os.Getenv("VERIF_WORKERS"); w != "" {
		fmt.Sscanf(w, "%d", &workers)
	}
	ch := make(chan job)
	var wg sync.WaitGroup
	for i := 0; i < workers; i++ {
		wg.Add(1)
		go func() {
			defer wg.Done()
			for j := range ch {
				o := j.o
				if o.Kind == "structural" && o.Goal == "true" {
					o.Result = "discharged"
					o.Solver = "structural"
					continue
				}
				if o.Goal == "false" && !o.ExpectSat && o.Kind == "contract-binding" {
					o.Result = "failed"
					o.Solver = "none"
					o.Output = o.Desc
					continue
				}
				q := j.u.buildQuery(o)
				if len(q) > maxVCBytes {
					o.Result = "failed"
					o.Solver = "none"
					o.Output = fmt.Sprintf("verification condition too large (%d bytes): split this function", len(q))
					continue
				}
				tmo := timeoutS
				if o.ExpectSat && tmo > 3 {
					tmo = 3 // cover goals only guard against vacuity; an undecided one is reported as such
				}
				res := solveOne(q, tmo, seed, workDir, fmt.Sprintf("q%04d", j.n))
				o.Solver = res.solver
				o.TimeS = res.timeS
				o.Output = res.out
				switch {
				case o.ExpectSat && res.answer == "sat":
					o.Result = "discharged"
					o.Model = res.out
				case o.ExpectSat && res.answer == "unsat":
					o.Result = "failed"
					o.Output = "cover goal is unsatisfiable (vacuous contract)\n" + res.out
				case o.ExpectSat:
					// cover goals that time out are not a vacuity proof; count as discharged-unknown
					o.Result = "cover-unknown"
					// quantified hypotheses keep solvers from answering "sat": look again without them. "unsat" there is
					// a vacuity proof (fewer hypotheses); "sat" there is recorded as what it is.
					r2 := solveOne(j.u.buildQueryOpt(o, true), 3, seed, workDir, fmt.Sprintf("q%04dr", j.n))
					o.TimeS += r2.timeS
					switch r2.answer {
					case "unsat":
						o.Result = "failed"
						o.Solver = r2.solver
						o.Output = "cover goal is unsatisfiable even without the quantified hypotheses (vacuous contract)\n" + r2.out
					case "sat":
						o.Result = "cover-sat-without-quantified-hypotheses"
						o.Solver = r2.solver
					}
				case res.answer == "unsat":
					o.Result = "discharged"
				case res.answer == "sat":
					o.Result = "failed"
					o.Model = res.out
				default:
					o.Result = "failed"
					o.Model = ""
					o.Output = "no definite answer (" + res.answer + ")\n" + res.out
					if res.answer != "error" {
						// second look without the quantified hypotheses
						rq := j.u.buildQueryOpt(o, true)
						r2 := solveOne(rq, 5, seed, workDir, fmt.Sprintf("q%04dr", j.n))
						o.TimeS += r2.timeS
						switch r2.answer {
						case "unsat":
							o.Result = "discharged"
							o.Solver = r2.solver + " (without quantified hypotheses)"
							o.Output = r2.out
						case "sat":
							o.Solver = r2.solver
							o.Model = r2.out
							o.Output = "sat once the quantified hypotheses are left out (candidate counterexample; the full query was undecided: " + res.answer + ")\n" + r2.out
						}
					}
				}
			}
		}()
	}
	for _, j := range jobs {
		ch <- j
	}
	close(ch)
	wg.Wait()
}
