//go:build verif

// Contracts for package f3 (module root) and TRUSTED contracts for library functions used by the
// verified code. Trusted contracts are assumptions: they are listed in every evidence file that uses them.
// This file contains only comments.

package f3

// ---- errors ----

//@ func fmt.Errorf
//@   trusted fmt.Errorf returns a non-nil error
//@   pure
//@   ensures result != nil

//@ func errors.New
//@   trusted errors.New returns a non-nil error
//@   pure
//@   ensures result != nil

// ---- big integers: go-state-types big.Int and *math/big.Int are modelled as mathematical integers ----

//@ func github.com/filecoin-project/go-state-types/big.NewInt
//@   trusted big.Int arithmetic is exact integer arithmetic
//@   pure
//@   ensures result == i

//@ func github.com/filecoin-project/go-state-types/big.Zero
//@   trusted big.Int arithmetic is exact integer arithmetic
//@   pure
//@   ensures result == 0

//@ func github.com/filecoin-project/go-state-types/big.Add
//@   trusted big.Int arithmetic is exact integer arithmetic
//@   pure
//@   ensures result == a + b

//@ func github.com/filecoin-project/go-state-types/big.Sub
//@   trusted big.Int arithmetic is exact integer arithmetic
//@   pure
//@   ensures result == a - b

//@ func github.com/filecoin-project/go-state-types/big.Mul
//@   trusted big.Int arithmetic is exact integer arithmetic
//@   pure
//@   ensures result == a * b

//@ func github.com/filecoin-project/go-state-types/big.Div
//@   trusted big.Int Div is Euclidean division (math/big.Int.Div)
//@   pure
//@   requires b != 0
//@   ensures b > 0 ==> result*b <= a && a < (result+1)*b
//@   ensures b < 0 ==> result*b <= a && a < (result-1)*b

//@ func github.com/filecoin-project/go-state-types/big.Cmp
//@   trusted big.Int comparison is integer comparison
//@   pure
//@   ensures (result == 0) == (a == b) && (result < 0) == (a < b) && (result > 0) == (a > b)
//@   ensures -1 <= result && result <= 1

//@ func github.com/filecoin-project/go-state-types/big.(Int).LessThan
//@   trusted big.Int comparison is integer comparison
//@   pure
//@   ensures result == (bi < o)

//@ func github.com/filecoin-project/go-state-types/big.(Int).GreaterThan
//@   trusted big.Int comparison is integer comparison
//@   pure
//@   ensures result == (bi > o)

//@ func github.com/filecoin-project/go-state-types/big.(Int).Equals
//@   trusted big.Int comparison is integer comparison
//@   pure
//@   ensures result == (bi == o)

//@ func math/big.(*Int).Sign
//@   trusted big.Int sign
//@   pure
//@   ensures (result == 0) == (x == 0) && (result < 0) == (x < 0) && (result > 0) == (x > 0)
//@   ensures -1 <= result && result <= 1

//@ func math/big.(*Int).Int64
//@   trusted big.Int.Int64 returns the value when it fits
//@   pure
//@   ensures -9223372036854775808 <= x && x <= 9223372036854775807 ==> result == x
