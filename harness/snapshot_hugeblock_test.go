package certstore

import (
	"bytes"
	"context"
	"fmt"
	"testing"

	"github.com/ipfs/go-datastore"
	ds_sync "github.com/ipfs/go-datastore/sync"
)

// Replay harness for certstore.readSnapshotBlockBytes: a nine-byte input announcing a block of 2^63-1 bytes must be
// rejected with an error, not crash the importer.
func TestVerifReplay(t *testing.T) {
	defer func() {
		if r := recover(); r != nil {
			fmt.Printf("REPLAY-CONFIRMED ImportSnapshotToDatastore panicked on a 9-byte input: %v\n", r)
		}
	}()
	in := []byte{0xff, 0xff, 0xff, 0xff, 0xff, 0xff, 0xff, 0xff, 0x7f} // uvarint 2^63-1
	err := ImportSnapshotToDatastore(context.Background(), bytes.NewReader(in), ds_sync.MutexWrap(datastore.NewMapDatastore()), nil)
	fmt.Printf("import error: %v\n", err)
	if err != nil {
		fmt.Println("REPLAY-NOT-REPRODUCED")
	}
}
